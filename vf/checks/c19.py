"""C19 -- ManageSieve: no script access before login; the script store is a
name -> bytes map with at most one active name, private to each user.

Deciding monitors

* gate: on a connection that is not authenticated every script command
  (HAVESPACE PUTSCRIPT LISTSCRIPTS SETACTIVE GETSCRIPT DELETESCRIPT
  RENAMESCRIPT CHECKSCRIPT UNAUTHENTICATE) must be answered NO (or BYE + close),
  must carry no data lines, and a deep snapshot of every user's store (glass
  box, dict backend) taken before and after the command must be equal;
* map: on an authenticated connection the response condition of every command
  and the payload of every GETSCRIPT / LISTSCRIPTS is compared with the
  reference model ``Model`` below; at the end of every program each user's
  store is audited through fresh connections (LISTSCRIPTS + GETSCRIPT of every
  name the model knows for *any* user) and, on dict, compared with the glass
  box as a cross-check.

Server output is read through an independent strict RFC 5804 response reader
(``parse_line`` / ``SieveConn``); ``vf.grammar`` (IMAP) is not used."""

from __future__ import annotations

import asyncio
import base64
import hashlib
import logging
import random
import re
from typing import Any, Callable, Iterable

from .. import loop as L
from ..net import Conn, Sched
from ..runner import Check
from ..servers import make_env

SCRIPT_CMDS = ('HAVESPACE', 'PUTSCRIPT', 'LISTSCRIPTS', 'SETACTIVE',
               'GETSCRIPT', 'DELETESCRIPT', 'RENAMESCRIPT', 'CHECKSCRIPT')
GATED = SCRIPT_CMDS + ('UNAUTHENTICATE',)
#: servers MUST accept names of up to 128 Unicode characters (RFC 5804 1.6)
NAME_MUST = 128
#: scripts up to this many octets are expected to fit any server limit
SCRIPT_MUST = 3800


# --------------------------------------------------------------------------
# independent RFC 5804 response reader
# --------------------------------------------------------------------------

class Malformed(Exception):
    pass


class Hang(Exception):
    """Loop quiescent (and virtual time advanced) without a complete
    response."""


class Closed(Exception):
    """Connection closed before a complete response line arrived."""


_LIT = re.compile(rb'\{(\d+)\}\r\n')
_ATOM = re.compile(rb'[^\x00-\x20\x7f"(){}\\]+')


def _skip_quoted(buf: Any, j: int, n: int, val: bytearray | None) \
        -> int | None:
    """``buf[j-1]`` is the opening quote; returns the index after the closing
    quote, None if incomplete."""
    while True:
        if j >= n:
            return None
        ch = buf[j]
        if ch == 0x22:
            return j + 1
        if ch == 0x5c:
            if j + 1 >= n:
                return None
            if buf[j + 1] not in (0x22, 0x5c):
                raise Malformed('bad escape in quoted string at %d' % j)
            if val is not None:
                val.append(buf[j + 1])
            j += 2
            continue
        if ch in (0x0d, 0x0a, 0x00):
            raise Malformed('CR/LF/NUL inside quoted string at %d' % j)
        if val is not None:
            val.append(ch)
        j += 1


def parse_line(buf: Any, pos: int) -> tuple[list[tuple[str, bytes]], int] \
        | None:
    """One response line starting at ``pos``: tokens separated by exactly one
    SP and terminated by CRLF.  Token kinds: 'q' quoted string, 'l' literal
    ({n} CRLF n octets), 'c' parenthesised response code, 'a' atom.  Returns
    None while the line is incomplete; raises ``Malformed``."""
    toks: list[tuple[str, bytes]] = []
    n = len(buf)
    i = pos
    while True:
        if i >= n:
            return None
        c = buf[i]
        if c == 0x22:
            val = bytearray()
            end = _skip_quoted(buf, i + 1, n, val)
            if end is None:
                return None
            toks.append(('q', bytes(val)))
            i = end
        elif c == 0x7b:
            m = _LIT.match(buf, i)
            if not m:
                tail = bytes(buf[i:i + 24])
                if len(tail) < 24 and b'\n' not in tail and \
                        re.fullmatch(rb'\{\d*\}?\r?', tail):
                    return None
                raise Malformed('bad literal introducer %r' % tail)
            ln = int(m.group(1))
            s = m.end()
            if s + ln > n:
                return None
            toks.append(('l', bytes(buf[s:s + ln])))
            i = s + ln
        elif c == 0x28:
            j = i + 1
            while True:
                if j >= n:
                    return None
                ch = buf[j]
                if ch == 0x29:
                    break
                if ch == 0x22:
                    e = _skip_quoted(buf, j + 1, n, None)
                    if e is None:
                        return None
                    j = e
                elif ch in (0x0d, 0x0a, 0x00):
                    raise Malformed('CR/LF inside response code')
                else:
                    j += 1
            toks.append(('c', bytes(buf[i + 1:j])))
            i = j + 1
        else:
            m = _ATOM.match(buf, i)
            if not m:
                raise Malformed('unexpected octet %r at %d' % (
                    bytes(buf[i:i + 1]), i - pos))
            if m.end() >= n:
                return None
            toks.append(('a', bytes(m.group(0))))
            i = m.end()
        if i >= n:
            return None
        if buf[i] == 0x20:
            i += 1
            if i < n and buf[i] in (0x0d, 0x0a, 0x20):
                raise Malformed('SP not followed by a token')
            continue
        if buf[i] == 0x0d:
            if i + 1 >= n:
                return None
            if buf[i + 1] == 0x0a:
                return toks, i + 2
        raise Malformed('token followed by %r' % bytes(buf[i:i + 2]))


class Resp:
    __slots__ = ('cond', 'code', 'text', 'data', 'closed')

    def __init__(self, cond: bytes, code: bytes | None, text: bytes | None,
                 data: list[list[tuple[str, bytes]]]) -> None:
        self.cond = cond
        self.code = code
        self.text = text
        self.data = data
        self.closed = False

    def brief(self) -> str:
        s = self.cond.decode()
        if self.code is not None:
            s += ' (%s)' % self.code.decode('latin-1')
        if self.text:
            s += ' %r' % self.text[:80]
        if self.data:
            s += ' +%d data line(s)' % len(self.data)
        return s


def final_of(toks: list[tuple[str, bytes]]) -> Resp | None:
    """``Resp`` if the line is a response-oknobye line, else None."""
    if not toks or toks[0][0] != 'a' or \
            toks[0][1].upper() not in (b'OK', b'NO', b'BYE'):
        return None
    rest = toks[1:]
    code = text = None
    if rest and rest[0][0] == 'c':
        code = rest[0][1]
        rest = rest[1:]
    if rest and rest[0][0] in 'ql':
        text = rest[0][1]
        rest = rest[1:]
    if rest:
        raise Malformed('trailing tokens on completion line: %r' % (rest,))
    return Resp(toks[0][1].upper(), code, text, [])


class BusyLoop(BaseException):
    """Raised *inside the server task* when it keeps reading an exhausted
    stream: without it the task would spin forever without ever yielding to
    the event loop (a deterministic recording point instead of a wall-clock
    watchdog)."""


class GuardReader(asyncio.StreamReader):
    SPIN = 500

    def __init__(self, **kw: Any) -> None:
        super().__init__(**kw)
        self.eof_reads = 0

    async def readline(self) -> bytes:
        if self.at_eof():
            self.eof_reads += 1
            if self.eof_reads > self.SPIN:
                raise BusyLoop('%d reads at EOF' % self.eof_reads)
        return await super().readline()


class SieveConn(Conn):
    """``vf.net.Conn`` transport; the IMAP framer is bypassed and the bytes
    the server wrote (``self.out``) are read with ``parse_line``."""

    def __init__(self, cid: int, log: list[tuple[str, int, bytes]]) -> None:
        super().__init__(cid, Sched())
        self.reader = GuardReader(limit=2 ** 16)
        self.log = log
        self.pos = 0
        self.user: str | None = None      # model: who is authenticated
        self.caps: dict[bytes, bytes | None] = {}
        self.gone = False

    def _on_write(self, data: bytes) -> None:
        self.out += data
        self.transcript.append((getattr(self.loop, 'steps', 0), 'S', data))
        if self.log and self.log[-1][0] == 'S' and \
                self.log[-1][1] == self.cid:
            self.log[-1] = ('S', self.cid, self.log[-1][2] + data)
        else:
            self.log.append(('S', self.cid, data))
        self._wake_all()

    def _on_close(self) -> None:
        self.log.append(('X', self.cid, b''))
        super()._on_close()

    def feed(self, data: bytes) -> None:
        self.log.append(('C', self.cid, data))
        super().feed(data)

    async def _wait(self) -> bool:
        """True: the server wrote/closed; False: the loop became quiescent
        first (everything is blocked on external input)."""
        loop = self.loop
        w: Any = loop.create_future()
        self._any_waiter = w
        q = loop.quiescent()            # type: ignore[attr-defined]

        def on_q(_f: Any) -> None:
            if not w.done():
                w.set_result(False)
        q.add_done_callback(on_q)
        r = await w
        if not q.done():
            q.cancel()
        return r is None

    async def settle(self) -> None:
        await self.loop.quiescent()     # type: ignore[attr-defined]

    async def read_line(self) -> list[tuple[str, bytes]]:
        idle = 0
        while True:
            r = parse_line(self.out, self.pos)
            if r is not None:
                toks, end = r
                self.pos = end
                return toks
            if self.dead:
                raise Closed()
            if not await self._wait():
                if parse_line(self.out, self.pos) is not None or self.dead:
                    continue
                idle += 1
                if idle > 2:
                    raise Hang()
                await self.loop.advance(5.0)   # type: ignore[attr-defined]

    async def read_response(self) -> Resp:
        data: list[list[tuple[str, bytes]]] = []
        while True:
            toks = await self.read_line()
            fin = final_of(toks)
            if fin is not None:
                fin.data = data
                return fin
            data.append(toks)

    def unread(self) -> bytes:
        return bytes(self.out[self.pos:])


# --------------------------------------------------------------------------
# reference model
# --------------------------------------------------------------------------

class Store:
    def __init__(self) -> None:
        self.scripts: dict[str, bytes] = {}
        self.active: str | None = None

    def snap(self) -> tuple[dict[str, bytes], str | None]:
        return dict(self.scripts), self.active


class Outcome:
    __slots__ = ('cond', 'reason', 'apply', 'lat')

    def __init__(self, cond: str, reason: str,
                 apply: Callable[[], None] | None = None,
                 lat: str | None = None) -> None:
        self.cond = cond
        self.reason = reason
        self.apply = apply
        self.lat = lat


class Model:
    """Per user: dict name -> bytes plus the active name (or None).

    Plain RFC 5804 semantics; response codes and human-readable texts are
    never compared.  Latitudes (each returns a *set* of allowed outcomes and
    is counted as ``lat_<id>`` whenever the observed outcome is one of several
    allowed ones):

    * ``long_name``  -- a name longer than 128 Unicode characters may be
      refused (RFC 5804 1.6: servers MUST allow 128, MAY allow more); if it is
      accepted it is an ordinary name.
    * ``big_script`` -- a script larger than ``SCRIPT_MUST`` octets may be
      refused by PUTSCRIPT/CHECKSCRIPT (server limits, QUOTA/MAXSIZE).
    * ``unclear_script`` -- scripts whose validity depends on how strictly
      RFC 5228 is read (empty script, bare-LF line ends, final '#' comment
      without CRLF) may be accepted or refused by PUTSCRIPT/CHECKSCRIPT.
    * ``havespace``  -- HAVESPACE may answer OK or NO (quota is the server's
      business); it never changes anything.
    * ``rename_same`` -- RENAMESCRIPT x x on an existing x may be refused
      (target exists) or be a successful no-op.
    * ``reauth``     -- AUTHENTICATE on an already authenticated connection
      may be refused, or succeed and switch to the new user.
    * ``authzid``    -- SASL PLAIN with an authorization identity different
      from the (non-admin) authentication identity may be refused, or succeed
      *as the authentication identity*; it must never give the other user's
      store (that is checked by everything that follows).
    * ``mech_not_offered`` -- AUTHENTICATE with a mechanism that the last
      capability listing did not offer may be refused even with good
      credentials.
    * ``logout``     -- LOGOUT may answer OK (RFC 5804 2.3) or BYE; the
      connection must close.
    * ``list_order`` -- LISTSCRIPTS order is unspecified: compared as a
      multiset (not counted, always applied).
    * ``unauth_cap`` -- UNAUTHENTICATE may be refused if the capability was
      not advertised.
    * before authentication a refusal may be NO or BYE (``preauth_bye``); a
      failed or cancelled AUTHENTICATE may likewise be answered NO or BYE.
    """

    def __init__(self, users: Iterable[str]) -> None:
        self.stores = {u: Store() for u in users}

    # every method returns the list of allowed outcomes

    def putscript(self, user: str, name: str, script: bytes,
                  validity: str) -> list[Outcome]:
        st = self.stores[user]

        def do() -> None:
            st.scripts[name] = script
        if name == '':
            return [Outcome('NO', 'empty-name')]
        if validity == 'invalid':
            return [Outcome('NO', 'invalid-script')]
        out = [Outcome('OK', 'store', do)]
        if len(name) > NAME_MUST:
            out.append(Outcome('NO', 'long-name', None, 'long_name'))
        elif validity == 'unclear':
            out.append(Outcome('NO', 'unclear-script', None,
                               'unclear_script'))
        elif len(script) > SCRIPT_MUST:
            out.append(Outcome('NO', 'big-script', None, 'big_script'))
        if len(out) > 1:
            out[0].lat = out[1].lat
        return out

    def checkscript(self, user: str, script: bytes, validity: str) \
            -> list[Outcome]:
        if validity == 'invalid':
            return [Outcome('NO', 'invalid-script')]
        out = [Outcome('OK', 'valid-script')]
        if validity == 'unclear':
            out[0].lat = 'unclear_script'
            out.append(Outcome('NO', 'unclear-script', None,
                               'unclear_script'))
        elif len(script) > SCRIPT_MUST:
            out[0].lat = 'big_script'
            out.append(Outcome('NO', 'big-script', None, 'big_script'))
        return out

    def getscript(self, user: str, name: str) -> list[Outcome]:
        st = self.stores[user]
        if name == '':
            return [Outcome('NO', 'empty-name')]
        if name in st.scripts:
            return [Outcome('OK', 'present')]
        return [Outcome('NO', 'missing')]

    def listscripts(self, user: str) -> list[Outcome]:
        return [Outcome('OK', 'list')]

    def setactive(self, user: str, name: str) -> list[Outcome]:
        st = self.stores[user]

        def clear() -> None:
            st.active = None

        def do() -> None:
            st.active = name
        if name == '':
            return [Outcome('OK', 'deactivate', clear)]
        if name not in st.scripts:
            return [Outcome('NO', 'missing')]
        return [Outcome('OK', 'activate', do)]

    def deletescript(self, user: str, name: str) -> list[Outcome]:
        st = self.stores[user]

        def do() -> None:
            del st.scripts[name]
        if name == '':
            return [Outcome('NO', 'empty-name')]
        if name not in st.scripts:
            return [Outcome('NO', 'missing')]
        if name == st.active:
            return [Outcome('NO', 'active')]
        return [Outcome('OK', 'delete', do)]

    def renamescript(self, user: str, old: str, new: str) -> list[Outcome]:
        st = self.stores[user]

        def do() -> None:
            st.scripts[new] = st.scripts.pop(old)
            if st.active == old:
                st.active = new
        if old == '' or new == '':
            return [Outcome('NO', 'empty-name')]
        if old not in st.scripts:
            return [Outcome('NO', 'missing')]
        if old == new:
            return [Outcome('NO', 'same-name', None, 'rename_same'),
                    Outcome('OK', 'same-name', None, 'rename_same')]
        if new in st.scripts:
            return [Outcome('NO', 'target-exists')]
        out = [Outcome('OK', 'rename', do)]
        if len(new) > NAME_MUST:
            out[0].lat = 'long_name'
            out.append(Outcome('NO', 'long-name', None, 'long_name'))
        return out

    def havespace(self, user: str) -> list[Outcome]:
        return [Outcome('OK', 'havespace', None, 'havespace'),
                Outcome('NO', 'havespace', None, 'havespace')]


# --------------------------------------------------------------------------
# generators
# --------------------------------------------------------------------------

PLAIN_NAMES = ['a', 'script1', 'vacation-rule', 'test.sieve', 'x', 'Main']
SPACE_NAMES = ['my script', ' lead', 'trail ', 'a  b', ' ']
UTF8_NAMES = ['café', 'сценарий',
              '脚本', 'naïve règle', '\U0001f600mail',
              'x\U0001d518y', 'ü', '\U0001f4ec']
QUOTE_NAMES = ['a"b', 'back\\slash', '"', '\\', 'q"u\\o"te', "it's",
               '\\"', 'end\\', '"" ""']
MARKER_NAMES = ['a{3+}', '{1+}', 'n{12+}', 'w {0+}', '{3+}b', 'c{2}']
KEYWORD_NAMES = ['OK', 'NO', 'ACTIVE', 'x ACTIVE', '(a)', '{b}', '{7}',
                 'NIL', 'BYE (x)']


def gen_names(rng: random.Random) -> list[str]:
    """4-7 distinct storable names (NFC, no control characters)."""
    names: list[str] = []
    classes = [PLAIN_NAMES, PLAIN_NAMES, SPACE_NAMES, UTF8_NAMES, UTF8_NAMES,
               QUOTE_NAMES, QUOTE_NAMES, KEYWORD_NAMES, KEYWORD_NAMES,
               'long', 'long-utf8', 'overlong', PLAIN_NAMES, SPACE_NAMES,
               MARKER_NAMES]
    for _ in range(rng.randint(4, 7)):
        cl = rng.choice(classes)
        if cl == 'long':
            nm = rng.choice('LMN') * rng.randint(60, NAME_MUST)
        elif cl == 'long-utf8':
            ch = rng.choice(['é', '脚', '\U0001f600'])
            k = {1: 128, 2: 128, 3: 100, 4: 75}[len(ch.encode())]
            nm = ch * rng.randint(k // 2, k) + rng.choice(['', 'z'])
        elif cl == 'overlong':
            nm = 'o' * rng.randint(NAME_MUST + 1, 300)
        else:
            nm = rng.choice(cl)         # type: ignore[arg-type]
        if nm not in names:
            names.append(nm)
    return names


_TXT = ('abcdefghijklmnopqrstuvwxyzABCDEFGHIJKLMNOPQRSTUVWXYZ0123456789'
        ' !#$%&\'()*+,-./:;<=>?@[]^_`{|}~"\\')
_UTXT = ['é', 'ß', '中', '\U0001f600', 'Ж']


def _text(rng: random.Random, lo: int, hi: int, *, utf8: bool = True) -> str:
    out = []
    for _ in range(rng.randint(lo, hi)):
        if utf8 and rng.random() < 0.08:
            out.append(rng.choice(_UTXT))
        else:
            out.append(rng.choice(_TXT))
    return ''.join(out)


def _sstr(rng: random.Random) -> str:
    """A sieve quoted-string."""
    t = _text(rng, 0, 14)
    return '"' + t.replace('\\', '\\\\').replace('"', '\\"') + '"'


def _hash_comment(rng: random.Random) -> str:
    return '#' + _text(rng, 0, 40)


def _bracket_comment(rng: random.Random) -> str:
    t = _text(rng, 0, 30).replace('*/', '* /')
    if t.endswith('*'):
        t += ' '
    return '/*' + t + '*/'


def _test(rng: random.Random, req: set[str], depth: int = 0) -> str:
    r = rng.random()
    if depth < 2 and r < 0.12:
        return 'not ' + _test(rng, req, depth + 1)
    if depth < 2 and r < 0.27:
        return '%s (%s, %s)' % (rng.choice(['allof', 'anyof']),
                                _test(rng, req, depth + 1),
                                _test(rng, req, depth + 1))
    k = rng.randrange(8)
    if k == 0:
        return rng.choice(['true', 'false'])
    if k == 1:
        return 'header %s "Subject" %s' % (
            rng.choice([':is', ':contains', ':matches']), _sstr(rng))
    if k == 2:
        return 'size %s %d%s' % (rng.choice([':over', ':under']),
                                 rng.randint(0, 9999),
                                 rng.choice(['', 'K', 'M']))
    if k == 3:
        return 'exists ["X-A", "X-B"]'
    if k == 4:
        return 'address %s %s "from" %s' % (
            rng.choice([':is', ':contains']),
            rng.choice([':all', ':domain', ':localpart']), _sstr(rng))
    if k == 5:
        req.add('envelope')
        return 'envelope :is "from" %s' % _sstr(rng)
    if k == 6:
        return 'header :is ["X-A", "X-B"] [%s, %s]' % (_sstr(rng), _sstr(rng))
    return 'exists "X-Spam"'


def _action(rng: random.Random, req: set[str]) -> str:
    k = rng.randrange(6)
    if k == 0:
        return 'keep;'
    if k == 1:
        return 'discard;'
    if k == 2:
        return 'stop;'
    if k == 3:
        req.add('fileinto')
        return 'fileinto %s;' % _sstr(rng)
    if k == 4:
        req.add('reject')
        return 'reject %s;' % _sstr(rng)
    return 'redirect "user@example.com";'


def gen_valid(rng: random.Random, *, pad: int = 0) -> bytes:
    """A script that is valid by the RFC 5228 grammar using only the
    extensions the server advertises; CRLF line ends, comments with arbitrary
    printable text."""
    req: set[str] = set()
    eol = '\r\n'
    body: list[str] = []
    for _ in range(rng.randint(1, 4)):
        if rng.random() < 0.3:
            body.append(_hash_comment(rng) + eol)
        r = rng.random()
        if r < 0.45:
            body.append(_action(rng, req))
        else:
            s = 'if %s {%s%s%s}' % (
                _test(rng, req), rng.choice([' ', eol + '    ']),
                _action(rng, req), rng.choice([' ', eol]))
            if rng.random() < 0.3:
                s += ' elsif %s { %s }' % (_test(rng, req), _action(rng, req))
            if rng.random() < 0.4:
                s += ' else { %s }' % _action(rng, req)
            body.append(s)
        if rng.random() < 0.2:
            body.append(' ' + _bracket_comment(rng))
        body.append(rng.choice([eol, eol, ' ', eol + eol]))
    head = ''
    if rng.random() < 0.2:
        head += _hash_comment(rng) + eol
    if req:
        names = sorted(req)
        rng.shuffle(names)
        if len(names) == 1 and rng.random() < 0.5:
            head += 'require "%s";%s' % (names[0], eol)
        else:
            head += 'require [%s];%s' % (
                ', '.join('"%s"' % n for n in names), eol)
    text = head + ''.join(body)
    tail = rng.random()
    if tail < 0.25:
        text += _hash_comment(rng) + eol
    elif tail < 0.35:
        text += '# tail {%d+}%s' % (rng.randint(0, 20), eol)
    elif tail < 0.45:
        text += _bracket_comment(rng)
    elif tail < 0.5:
        text += '/* {%d+}*/' % rng.randint(1, 9)
    while pad and len(text.encode()) < pad:
        text += '# pad ' + _text(rng, 40, 70, utf8=False) + eol
    return text.encode('utf-8')


INVALID_FIXED = [
    b'1234567890', b'else { discard; }', b'if true { keep;',
    b'\xff\xfe\x00', b'keep; }', b'"str";', b'if { keep; }', b'keep;;',
    b'keep;\x00', b'/* unterminated', b'fileinto "X";\r\n',
    b'nosuchcommand-xyz;\r\n', b'if true keep;', b'require ;\r\nkeep;\r\n',
    b'}{', b'\x00', b'1234567890 {5+}',
]


def gen_invalid(rng: random.Random) -> bytes:
    """Octets that no reading of RFC 5228 accepts."""
    r = rng.random()
    if r < 0.6:
        return rng.choice(INVALID_FIXED)
    if r < 0.86:
        return b'\x00' + rng.randbytes(rng.randint(0, 60))
    if r < 0.9:
        return b'}' + rng.randbytes(rng.randint(0, 40)) + \
            b'{%d+}' % rng.randint(1, 9)
    return b'keep;\r\n\x01' + rng.randbytes(rng.randint(0, 30)) + b'\r\n'


def gen_unclear(rng: random.Random) -> bytes:
    r = rng.random()
    if r < 0.25:
        return b''
    if r < 0.6:
        return gen_valid(rng).replace(b'\r\n', b'\n')
    if r < 0.75:
        # final hash comment without CRLF, ending in what looks like a
        # non-synchronising literal introducer
        return gen_valid(rng) + b'# %s{%d+}' % (
            _text(rng, 0, 10, utf8=False).encode(), rng.randint(0, 12))
    return gen_valid(rng) + b'# no line end'


def gen_script(rng: random.Random) -> tuple[bytes, str]:
    r = rng.random()
    if r < 0.62:
        return gen_valid(rng), 'valid'
    if r < 0.80:
        return gen_invalid(rng), 'invalid'
    if r < 0.93:
        return gen_unclear(rng), 'unclear'
    if r < 0.97:
        return gen_valid(rng, pad=rng.randint(2500, SCRIPT_MUST - 200)), \
            'valid'
    return gen_valid(rng, pad=rng.randint(4200, 7000)), 'valid'


def quotable(b: bytes) -> bool:
    return len(b) <= 1024 and not any(c in b for c in b'\r\n\x00')


def enc(b: bytes, rng: random.Random, *, force: str | None = None) -> bytes:
    """A ManageSieve client string: quoted or non-synchronising literal."""
    mode = force or ('q' if rng.random() < 0.55 else 'l')
    if mode == 'q' and quotable(b):
        return b'"' + b.replace(b'\\', b'\\\\').replace(b'"', b'\\"') + b'"'
    return b'{%d+}\r\n' % len(b) + b


def verb(kind: str, rng: random.Random) -> bytes:
    r = rng.random()
    if r < 0.7:
        return kind.encode()
    if r < 0.85:
        return kind.lower().encode()
    return kind.capitalize().encode()


_MARKER_TAIL = re.compile(rb'\{\d+\+\}$')


# --------------------------------------------------------------------------
# the run
# --------------------------------------------------------------------------

class LogCapture(logging.Handler):
    def __init__(self) -> None:
        super().__init__(level=logging.ERROR)
        self.records: list[str] = []

    def emit(self, record: logging.LogRecord) -> None:
        exc = record.exc_info[1] if record.exc_info else None
        self.records.append(type(exc).__name__ if exc is not None
                            else 'log:' + record.getMessage()[:60])


LOGCAP = LogCapture()


def show(b: bytes, limit: int = 1500) -> str:
    return repr(b if len(b) <= limit else b[:limit] + b'...[%d]' % len(b))


class Stop(Exception):
    """The program cannot continue (violation or abort recorded)."""


class Skip(Exception):
    """The command was reported and had no effect; the program goes on."""


class Run:
    def __init__(self, spec: dict[str, Any]) -> None:
        self.spec = spec
        self.rng = random.Random(spec.get('seed', 0))
        self.rng_reput = random.Random(spec.get('seed', 0) * 31 + 3)
        self.violations: list[dict[str, Any]] = []
        self.counters: dict[str, int] = {}
        self.aborted: str | None = None
        self.log: list[tuple[str, int, bytes]] = []
        self.program: list[str] = []
        self.kinds: list[str] = []
        self.env: Any = None
        self.model: Model = Model(())
        self.users: dict[str, str] = {}
        self.ncid = 0
        self.conns: list[SieveConn] = []
        self.names: list[str] = []
        self.initial: dict[str, Any] = {}
        self.glass_ok = True

    # -- bookkeeping ----------------------------------------------------------

    def count(self, k: str, n: int = 1) -> None:
        self.counters[k] = self.counters.get(k, 0) + n

    def transcript(self) -> list[str]:
        return ['%s%d %s' % (d, cid, show(data))
                for d, cid, data in self.log[-160:]]

    def report(self, mech: str, detail: str, **kw: Any) -> None:
        if len(self.violations) < 10:
            w = {'program': list(self.program),
                 'transcript': self.transcript()}
            w.update(kw)
            self.violations.append({'mech': mech, 'detail': detail,
                                    'witness': w})

    # -- glass box ------------------------------------------------------------

    def glass(self) -> dict[str, tuple[dict[str, bytes], str | None]] | None:
        """Deep snapshot of every user's FilterSet (dict backend)."""
        if not self.glass_ok:
            return None
        try:
            snap = {}
            for user, pair in self.env.config.set_cache.items():
                fs = pair[1]
                filters = fs._filters
                active = fs._active
                if not isinstance(filters, dict):
                    raise TypeError
                snap[user] = ({str(k): bytes(v) for k, v in filters.items()},
                              active)
            return snap
        except Exception:
            self.glass_ok = False
            self.count('glass_unavailable')
            return None

    def glass_norm(self, snap: dict[str, Any], users: Iterable[str]) \
            -> dict[str, Any]:
        """A user the backend has not loaded yet has its initial store."""
        return {u: snap.get(u, self.initial.get(u, ({}, None)))
                for u in users}

    def model_snap(self) -> dict[str, Any]:
        return {u: st.snap() for u, st in self.model.stores.items()}

    # -- connections ----------------------------------------------------------

    async def connect(self) -> SieveConn:
        self.ncid += 1
        c = SieveConn(self.ncid, self.log)
        c.start(self.env.sieve)
        try:
            g = await c.read_response()
        except (Hang, Closed, Malformed) as exc:
            self.report('greeting-' + type(exc).__name__.lower(),
                        'no well-formed greeting: %s' % exc)
            raise Stop()
        if g.cond != b'OK':
            self.aborted = 'greeting-' + g.cond.decode()
            raise Stop()
        c.caps = self.caps_of(g)
        return c

    @staticmethod
    def caps_of(r: Resp) -> dict[bytes, bytes | None]:
        caps: dict[bytes, bytes | None] = {}
        for line in r.data:
            if line and line[0][0] in 'ql':
                caps[line[0][1].upper()] = line[1][1] if len(line) > 1 \
                    else None
        return caps

    async def bury(self, c: SieveConn) -> None:
        """The connection should be closing: let it."""
        for _ in range(3):
            if c.dead:
                break
            await c.settle()
        if not c.dead:
            self.report('connection-open-after-bye',
                        'connection %d still open after BYE/LOGOUT' % c.cid)
            c.feed_eof()
            await c.settle()
        c.gone = True

    async def hangup(self, c: SieveConn, where: str) -> None:
        """The client goes away (EOF): the server task must end."""
        c.feed_eof()
        for _ in range(3):
            if c.task_done:
                break
            await c.settle()
        c.gone = True
        self.count('client_hangups')
        if isinstance(c.task_exc, BusyLoop):
            self.report('c06-busy-loop-reading-at-eof',
                        'connection %d: client closed %s; the server task '
                        'kept calling readline() on the exhausted stream '
                        'without ever yielding (%s) -- sent so far %r' % (
                            c.cid, where, c.task_exc, bytes(c.sent[-120:])))
        elif c.task_exc is not None and not isinstance(
                c.task_exc, asyncio.CancelledError):
            self.report('c06-server-task-raised-%s-at-eof' %
                        type(c.task_exc).__name__,
                        'connection %d: client closed %s: %r' % (
                            c.cid, where, c.task_exc))
        elif not c.task_done:
            self.report('c06-server-task-alive-after-eof',
                        'connection %d: client closed %s; the server task '
                        'neither ended nor closed' % (c.cid, where))

    # -- one exchange ---------------------------------------------------------

    async def exchange(self, c: SieveConn, kind: str, wire: bytes,
                       desc: str, *, last_literal: bytes | None = None,
                       follow: list[bytes] | None = None) -> Resp:
        """Send one command, return its response.  ``follow``: client lines
        for SASL continuations."""
        self.program.append('c%d[%s] %s' % (c.cid, c.user or '-', desc))
        nlog = len(LOGCAP.records)
        c.feed(wire)
        try:
            while True:
                toks = await c.read_line()
                fin = final_of(toks)
                if fin is not None:
                    resp = fin
                    break
                if kind == 'AUTHENTICATE' and follow and len(toks) == 1 \
                        and toks[0][0] in 'ql':
                    c.feed(follow.pop(0))
                    continue
                # data lines
                data = [toks]
                while True:
                    toks = await c.read_line()
                    fin = final_of(toks)
                    if fin is not None:
                        break
                    data.append(toks)
                fin.data = data
                resp = fin
                break
            if kind == 'STARTTLS' and resp.cond == b'OK':
                caps = await c.read_response()
                c.caps = self.caps_of(caps)
        except Hang:
            if last_literal is not None and _MARKER_TAIL.search(last_literal):
                mech = 'c06-no-response-final-literal-ends-like-literal-' \
                       'introducer'
            else:
                mech = 'c06-no-response-to-valid-command'
            self.report(mech, '%s on connection %d (%s): the server wrote %r '
                        'and then waits for more input' % (
                            kind, c.cid, 'as ' + c.user if c.user else
                            'unauthenticated', c.unread()[:200]),
                        command=show(wire))
            # the command was never executed (the server is still reading
            # it): drop the connection and go on with a fresh one
            self.count('hangs_survived')
            await self.hangup(c, 'after the unanswered %s' % kind)
            raise Skip()
        except Closed:
            exc = c.task_exc
            if exc is not None:
                mech = 'c06-server-task-raised-%s' % type(exc).__name__
            else:
                mech = 'c06-connection-closed-without-response'
            self.report(mech, '%s on connection %d: connection closed before '
                        'a complete response (partial %r, task exception %r)'
                        % (kind, c.cid, c.unread()[:200], exc),
                        command=show(wire))
            raise Stop()
        except Malformed as exc:
            self.report('response-not-rfc5804-syntax',
                        '%s on connection %d: %s; unread %r' % (
                            kind, c.cid, exc, c.unread()[:300]),
                        command=show(wire))
            raise Stop()
        self.program[-1] += '  => ' + resp.brief()
        self.count('commands_checked')
        self.kinds.append('%d%s%s' % (
            self.conns.index(c) if c in self.conns else 9,
            '+' if c.user else '-', kind))
        await c.settle()
        if len(LOGCAP.records) > nlog:
            name = LOGCAP.records[nlog]
            self.report('c06-unhandled-exception-%s-in-%s' % (name, kind),
                        '%s on connection %d made the server log an '
                        'unhandled exception (%s); it answered %s' % (
                            kind, c.cid, LOGCAP.records[nlog:],
                            resp.brief()), command=show(wire))
            if not (kind == 'AUTHENTICATE' and resp.cond == b'NO'):
                raise Stop()
        if resp.cond == b'BYE':
            await self.bury(c)
        elif c.dead:
            self.report('c06-connection-closed-after-%s' % resp.cond.decode(),
                        '%s on connection %d: answered %s and then closed '
                        'the connection (task exception %r)' % (
                            kind, c.cid, resp.brief(), c.task_exc),
                        command=show(wire))
            c.gone = True
            raise Stop()
        if c.pos != len(c.out) and not c.gone:
            self.report('unsolicited-output-after-response',
                        '%s on connection %d: extra output %r' % (
                            kind, c.cid, c.unread()[:200]))
            raise Stop()
        return resp

    # -- payload oracles ------------------------------------------------------

    def check_getscript(self, c: SieveConn, user: str, name: str,
                        resp: Resp, where: str) -> None:
        want = self.model.stores[user].scripts[name]
        self.count('payload_comparisons')
        self.count('getscript_payloads')
        got = None
        if len(resp.data) == 1 and len(resp.data[0]) == 1 and \
                resp.data[0][0][0] in 'ql':
            got = resp.data[0][0][1]
        if got == want:
            return
        mech = 'getscript-bytes-differ-from-putscript'
        if got is None:
            mech = 'getscript-ok-without-single-string-payload'
        else:
            for other, st in self.model.stores.items():
                if other != user and got in st.scripts.values():
                    mech = 'cross-user-script-content-served'
        self.report(mech, '%s: GETSCRIPT %r as %s returned %s, the model has '
                    '%s' % (where, name, user,
                            show(got, 300) if got is not None else
                            repr(resp.data)[:300], show(want, 300)),
                    expected=show(want), observed=show(got or b''))
        raise Stop()

    def check_list(self, c: SieveConn, user: str, resp: Resp,
                   where: str) -> None:
        st = self.model.stores[user]
        self.count('payload_comparisons')
        self.count('listscripts_payloads')
        names: list[str] = []
        active: list[str] = []
        bad = None
        for line in resp.data:
            if not line or line[0][0] not in 'ql' or len(line) > 2 or (
                    len(line) == 2 and (line[1][0] != 'a' or
                                        line[1][1].upper() != b'ACTIVE')):
                bad = line
                break
            try:
                nm = line[0][1].decode('utf-8')
            except UnicodeDecodeError:
                bad = line
                break
            names.append(nm)
            if len(line) == 2:
                active.append(nm)
        if bad is not None:
            self.report('listscripts-line-not-name-active',
                        '%s: LISTSCRIPTS as %s: line %r' % (where, user, bad))
            raise Stop()
        others = set()
        for other, ost in self.model.stores.items():
            if other != user:
                others |= set(ost.scripts)
                self.count('cross_user_list_checks')
        want = sorted(st.scripts)
        if sorted(names) != want:
            extra = [n for n in names if n not in st.scripts]
            missing = [n for n in want if n not in names]
            if extra and not missing and all(n in others for n in extra):
                mech = 'cross-user-script-name-listed'
            elif extra and not missing:
                mech = 'listscripts-lists-unknown-name'
            elif missing and not extra:
                mech = 'listscripts-omits-stored-name'
            elif len(set(names)) != len(names):
                mech = 'listscripts-duplicate-name'
            else:
                mech = 'listscripts-names-differ'
            self.report(mech, '%s: LISTSCRIPTS as %s lists %r, the model has '
                        '%r (extra %r, missing %r)' % (
                            where, user, names, want, extra, missing),
                        expected=want, observed=names)
            raise Stop()
        want_active = [st.active] if st.active is not None else []
        if sorted(active) != want_active:
            if len(active) > 1:
                mech = 'listscripts-more-than-one-active'
            elif want_active and not active:
                mech = 'listscripts-active-marker-lost'
            elif active and not want_active:
                mech = 'listscripts-active-marker-on-inactive-store'
            else:
                mech = 'listscripts-active-marker-on-wrong-name'
            self.report(mech, '%s: LISTSCRIPTS as %s marks %r ACTIVE, the '
                        'model\'s active script is %r' % (
                            where, user, active, st.active),
                        expected=want_active, observed=active)
            raise Stop()

    # -- audit ----------------------------------------------------------------

    async def audit(self, where: str) -> None:
        """Fresh connection per user: LISTSCRIPTS, GETSCRIPT of every name
        any user has in the model."""
        self.count('audits')
        allnames: list[str] = []
        for st in self.model.stores.values():
            for n in st.scripts:
                if n not in allnames:
                    allnames.append(n)
        for user in self.model.stores:
            c = await self.connect()
            if b'PLAIN' not in (c.caps.get(b'SASL') or b'').upper().split() \
                    and b'STARTTLS' in c.caps:
                await self.exchange(c, 'STARTTLS', b'STARTTLS\r\n',
                                    'audit STARTTLS')
            tok = base64.b64encode(b'\0%s\0%s' % (
                user.encode(), self.users[user].encode()))
            r = await self.exchange(c, 'AUTHENTICATE',
                                    b'AUTHENTICATE "PLAIN" "%s"\r\n' % tok,
                                    'audit AUTHENTICATE %s' % user)
            if r.cond != b'OK':
                self.report('authenticate-good-credentials-answered-%s' %
                            r.cond.decode(), '%s: audit login as %s: %s' % (
                                where, user, r.brief()))
                raise Stop()
            c.user = user
            r = await self.exchange(c, 'LISTSCRIPTS', b'LISTSCRIPTS\r\n',
                                    'audit LISTSCRIPTS')
            if r.cond != b'OK':
                self.report('listscripts-list-answered-' + r.cond.decode(),
                            '%s: audit LISTSCRIPTS as %s: %s' % (
                                where, user, r.brief()))
                raise Stop()
            self.check_list(c, user, r, where + ' audit')
            for n in allnames:
                nb = n.encode('utf-8')
                r = await self.exchange(
                    c, 'GETSCRIPT',
                    b'GETSCRIPT ' + enc(nb, self.rng, force='q') + b'\r\n',
                    'audit GETSCRIPT %r' % n)
                have = n in self.model.stores[user].scripts
                if have and r.cond == b'OK':
                    self.check_getscript(c, user, n, r, where + ' audit')
                elif have or r.cond != b'NO':
                    reason = 'present' if have else 'missing'
                    mech = 'getscript-%s-answered-%s' % (reason,
                                                         r.cond.decode())
                    if not have and r.cond == b'OK':
                        mech = 'cross-user-script-readable'
                    self.report(mech, '%s: audit GETSCRIPT %r as %s: %s' % (
                        where, n, user, r.brief()))
                    raise Stop()
                else:
                    self.count('cross_user_get_refusals')
            r = await self.exchange(c, 'LOGOUT', b'LOGOUT\r\n',
                                    'audit LOGOUT')
            if not c.gone:
                await self.bury(c)
        g = self.glass()
        if g is not None:
            self.count('glass_comparisons')
            if self.glass_norm(g, self.model.stores) != self.model_snap():
                # the protocol-level audit above agreed with the model
                self.count('glass_mismatch_unconfirmed')

    # -- command generation ---------------------------------------------------

    def pick_name(self, user: str | None, want_existing: float) -> str:
        rng = self.rng
        existing: list[str] = []
        if user is not None:
            existing = sorted(self.model.stores[user].scripts)
        else:
            for st in self.model.stores.values():
                existing += [n for n in sorted(st.scripts)
                             if n not in existing]
        r = rng.random()
        if existing and r < want_existing:
            return rng.choice(existing)
        if r > 0.93:
            return ''
        if user is not None and r > 0.83:
            other = [n for u, st in sorted(self.model.stores.items())
                     if u != user for n in sorted(st.scripts)]
            if other:
                return rng.choice(other)
        return rng.choice(self.names)

    def build(self, c: SieveConn, kind: str) -> dict[str, Any]:
        """Concrete command: wire bytes + what the model needs."""
        rng = self.rng
        v = verb(kind, rng)
        cmd: dict[str, Any] = {'kind': kind, 'last': None}
        user = c.user

        def name_arg(nm: str, last: bool = False) -> bytes:
            nb = nm.encode('utf-8')
            e = enc(nb, rng)
            if last and e.startswith(b'{'):
                cmd['last'] = nb
            return e
        if kind == 'PUTSCRIPT':
            nm = self.pick_name(user, 0.3)
            script, validity = gen_script(rng)
            # an editor saving again: the very bytes this connection uploaded
            # under that name before (another connection of the user may have
            # changed or removed the script in between)
            mine = getattr(c, 'uploaded', None)
            if mine is None:
                mine = c.uploaded = []      # type: ignore[attr-defined]
            if mine and self.rng_reput.random() < 0.3:
                nm, script, validity = self.rng_reput.choice(mine)
                self.count('identical_reuploads')
            else:
                mine.append((nm, script, validity))
            e = enc(script, rng, force=None if quotable(script) and
                    rng.random() < 0.3 else 'l')
            if e.startswith(b'{'):
                cmd['last'] = script
            cmd.update(name=nm, script=script, validity=validity,
                       wire=v + b' ' + name_arg(nm) + b' ' + e + b'\r\n',
                       desc='PUTSCRIPT %r <%s %d octets>' % (
                           nm[:40], validity, len(script)))
        elif kind == 'CHECKSCRIPT':
            script, validity = gen_script(rng)
            e = enc(script, rng, force=None if quotable(script) and
                    rng.random() < 0.3 else 'l')
            if e.startswith(b'{'):
                cmd['last'] = script
            cmd.update(script=script, validity=validity,
                       wire=v + b' ' + e + b'\r\n',
                       desc='CHECKSCRIPT <%s %d octets>' % (
                           validity, len(script)))
        elif kind in ('GETSCRIPT', 'DELETESCRIPT'):
            nm = self.pick_name(user, 0.7)
            cmd.update(name=nm, wire=v + b' ' + name_arg(nm, True) + b'\r\n',
                       desc='%s %r' % (kind, nm[:40]))
        elif kind == 'SETACTIVE':
            nm = self.pick_name(user, 0.65)
            if rng.random() < 0.12:
                nm = ''
            cmd.update(name=nm, wire=v + b' ' + name_arg(nm, True) + b'\r\n',
                       desc='SETACTIVE %r' % nm[:40])
        elif kind == 'RENAMESCRIPT':
            old = self.pick_name(user, 0.75)
            new = self.pick_name(user, 0.15)
            if rng.random() < 0.05:
                new = old
            cmd.update(old=old, new=new,
                       wire=v + b' ' + name_arg(old) + b' ' +
                       name_arg(new, True) + b'\r\n',
                       desc='RENAMESCRIPT %r %r' % (old[:40], new[:40]))
        elif kind == 'HAVESPACE':
            nm = self.pick_name(user, 0.5) or 'a'
            size = rng.choice([0, 1, 100, 4096, 10 ** 6, 10 ** 12])
            cmd.update(name=nm, wire=v + b' ' + name_arg(nm) +
                       b' %d\r\n' % size,
                       desc='HAVESPACE %r %d' % (nm[:40], size))
        elif kind == 'NOOP':
            if rng.random() < 0.5:
                tag = _text(rng, 0, 8, utf8=False).encode()
                cmd.update(wire=v + b' ' + enc(tag, rng) + b'\r\n',
                           desc='NOOP %r' % tag)
            else:
                cmd.update(wire=v + b'\r\n', desc='NOOP')
        elif kind == 'AUTHENTICATE':
            cmd.update(self.build_auth(c, v))
        else:       # LISTSCRIPTS CAPABILITY LOGOUT STARTTLS UNAUTHENTICATE
            cmd.update(wire=v + b'\r\n', desc=kind)
        return cmd

    def build_auth(self, c: SieveConn, v: bytes) -> dict[str, Any]:
        rng = self.rng
        users = sorted(self.users)
        who = rng.choice(users)
        pw = self.users[who]
        r = rng.random()
        authz = ''
        flavour = 'good'
        if r < 0.12:
            flavour = 'bad'
            pw = rng.choice([pw + 'x', '', self.users[users[0]] if
                             self.users[users[0]] != pw else 'nope', pw[:-1]])
        elif r < 0.17:
            flavour = 'bad'
            who = rng.choice(['nobody', '', who + '2', who.upper()])
        elif r < 0.25:
            flavour = 'authzid'
            authz = rng.choice([u for u in users if u != who])
        elif r < 0.32:
            authz = who
        elif r < 0.36:
            flavour = 'cancel'
        raw = b'%s\0%s\0%s' % (authz.encode(), who.encode(), pw.encode())
        tok = base64.b64encode(raw)
        mech = rng.choice([b'"PLAIN"', b'"PLAIN"', b'"PLAIN"', b'"plain"'])
        follow: list[bytes] = []
        if flavour == 'cancel':
            wire = v + b' ' + mech + b'\r\n'
            follow = [rng.choice([b'"*"\r\n', b'{1+}\r\n*\r\n'])]
            form = 'continuation, cancelled'
        elif c.user is None and rng.random() < 0.35:
            wire = v + b' ' + mech + b'\r\n'
            follow = [enc(tok, rng) + b'\r\n']
            form = 'continuation'
        else:
            wire = v + b' ' + mech + b' ' + enc(tok, rng) + b'\r\n'
            form = 'initial response'
        return {'wire': wire, 'follow': follow, 'who': who, 'authz': authz,
                'flavour': flavour,
                'desc': 'AUTHENTICATE PLAIN authz=%r authc=%r pw=%r (%s, %s)'
                % (authz, who, pw, flavour, form)}

    def pick_kind(self, c: SieveConn) -> str:
        rng = self.rng
        if c.user is None:
            w = {'AUTHENTICATE': 5.0, 'PUTSCRIPT': 1.2, 'GETSCRIPT': 1.2,
                 'LISTSCRIPTS': 1.0, 'SETACTIVE': 0.8, 'DELETESCRIPT': 0.8,
                 'RENAMESCRIPT': 0.8, 'CHECKSCRIPT': 0.5, 'HAVESPACE': 0.4,
                 'UNAUTHENTICATE': 0.4, 'CAPABILITY': 0.3, 'NOOP': 0.3,
                 'STARTTLS': 6.0 if b'STARTTLS' in c.caps else 0.3,
                 'LOGOUT': 0.15}
            if b'STARTTLS' in c.caps:
                w['AUTHENTICATE'] = 1.0
        else:
            w = {'PUTSCRIPT': 5.0, 'GETSCRIPT': 3.0, 'LISTSCRIPTS': 3.0,
                 'SETACTIVE': 3.0, 'DELETESCRIPT': 2.5, 'RENAMESCRIPT': 2.5,
                 'CHECKSCRIPT': 1.0, 'HAVESPACE': 0.4, 'UNAUTHENTICATE': 1.3,
                 'CAPABILITY': 0.3, 'NOOP': 0.3, 'AUTHENTICATE': 0.3,
                 'LOGOUT': 0.2}
        kinds = list(w)
        return rng.choices(kinds, [w[k] for k in kinds])[0]

    # -- one step -------------------------------------------------------------

    async def step(self, c: SieveConn, kind: str,
                   cmd: dict[str, Any] | None = None) -> None:
        if c.gone or c.dead:
            raise RuntimeError('harness: step on a dead connection')
        cmd = cmd or self.build(c, kind)
        users = list(self.model.stores)
        before = self.glass()
        try:
            resp = await self.exchange(c, kind, cmd['wire'], cmd['desc'],
                                       last_literal=cmd.get('last'),
                                       follow=list(cmd.get('follow') or []))
        except Skip:
            return
        after = self.glass()
        cond = resp.cond.decode()
        where = 'connection %d, %s' % (c.cid, cmd['desc'])

        if c.user is None:
            # ---- not authenticated ------------------------------------------
            if before is not None and after is not None:
                self.count('preauth_snapshots_compared')
                if self.glass_norm(before, users) != \
                        self.glass_norm(after, users):
                    self.report('preauth-%s-touched-store' % kind.lower(),
                                '%s (unauthenticated) changed a store: '
                                'before %r after %r' % (
                                    where, before, after))
                    raise Stop()
            if kind in GATED:
                self.count('preauth_refusals_checked')
                if cond == 'OK':
                    mech = 'preauth-%s-answered-ok' % kind.lower()
                    self.report(mech, '%s on an unauthenticated connection '
                                'answered %s' % (where, resp.brief()),
                                observed=repr(resp.data)[:1000])
                    raise Stop()
                if resp.data:
                    self.report('preauth-%s-refusal-carries-data' %
                                kind.lower(), '%s: %s with data %r' % (
                                    where, resp.brief(), resp.data))
                    raise Stop()
                if cond == 'BYE':
                    self.count('lat_preauth_bye')
                return
            if kind == 'AUTHENTICATE':
                await self.after_auth(c, cmd, resp, where)
                return
            if kind == 'LOGOUT':
                await self.after_logout(c, resp, where)
                return
            if cond == 'BYE' and kind in ('NOOP', 'CAPABILITY'):
                self.report('c06-bye-on-%s' % kind.lower(),
                            '%s answered %s' % (where, resp.brief()))
                raise Stop()
            if kind == 'CAPABILITY' and cond == 'OK':
                c.caps = self.caps_of(resp)
            return

        # ---- authenticated --------------------------------------------------
        user = c.user
        m = self.model
        if kind == 'PUTSCRIPT':
            allowed = m.putscript(user, cmd['name'], cmd['script'],
                                  cmd['validity'])
        elif kind == 'CHECKSCRIPT':
            allowed = m.checkscript(user, cmd['script'], cmd['validity'])
        elif kind == 'GETSCRIPT':
            allowed = m.getscript(user, cmd['name'])
        elif kind == 'LISTSCRIPTS':
            allowed = m.listscripts(user)
        elif kind == 'SETACTIVE':
            allowed = m.setactive(user, cmd['name'])
        elif kind == 'DELETESCRIPT':
            allowed = m.deletescript(user, cmd['name'])
        elif kind == 'RENAMESCRIPT':
            allowed = m.renamescript(user, cmd['old'], cmd['new'])
        elif kind == 'HAVESPACE':
            allowed = m.havespace(user)
        elif kind == 'UNAUTHENTICATE':
            def unauth() -> None:
                c.user = None
            allowed = [Outcome('OK', 'unauthenticate', unauth)]
            if b'UNAUTHENTICATE' not in c.caps:
                allowed[0].lat = 'unauth_cap'
                allowed.append(Outcome('NO', 'not-advertised', None,
                                       'unauth_cap'))
        elif kind == 'AUTHENTICATE':
            await self.after_auth(c, cmd, resp, where)
            return
        elif kind == 'LOGOUT':
            await self.after_logout(c, resp, where)
            return
        else:       # NOOP CAPABILITY
            allowed = [Outcome('OK', 'always')]

        hit = [o for o in allowed if o.cond == cond]
        if not hit:
            reason = allowed[0].reason
            mech = '%s-%s-answered-%s' % (kind.lower(), reason, cond)
            if cond == 'BYE':
                mech = 'c06-bye-on-%s-%s' % (kind.lower(), reason)
            self.report(mech, '%s as %s answered %s; allowed: %s' % (
                where, user, resp.brief(),
                ', '.join('%s(%s)' % (o.cond, o.reason) for o in allowed)),
                expected=[o.cond for o in allowed], observed=cond)
            if mech == 'putscript-invalid-script-answered-OK':
                # keep exploring behind this divergence: adopt what the
                # server did (it stored the octets)
                m.stores[user].scripts[cmd['name']] = cmd['script']
                self.count('resync_after_invalid_put')
                return
            raise Stop()
        o = hit[0]
        if o.lat is not None:
            self.count('lat_' + o.lat)
            self.count('latitude_uses')
        if kind not in ('GETSCRIPT', 'LISTSCRIPTS', 'CAPABILITY') and \
                resp.data:
            self.report('%s-response-carries-data' % kind.lower(),
                        '%s: %s with data %r' % (where, resp.brief(),
                                                 resp.data[:3]))
            raise Stop()
        if o.apply is not None:
            o.apply()
        if kind == 'GETSCRIPT':
            if cond == 'OK':
                self.check_getscript(c, user, cmd['name'], resp, where)
            elif resp.data:
                self.report('getscript-refusal-carries-data',
                            '%s: %s with data' % (where, resp.brief()))
                raise Stop()
        elif kind == 'LISTSCRIPTS':
            self.check_list(c, user, resp, where)
        elif kind == 'CAPABILITY':
            c.caps = self.caps_of(resp)
            owner = c.caps.get(b'OWNER')
            if owner is not None:
                self.count('owner_seen')
        # glass box cross-check: a difference triggers the protocol audit,
        # which alone decides
        if after is not None:
            self.count('glass_comparisons')
            if self.glass_norm(after, users) != self.model_snap():
                self.count('glass_triggered_audits')
                await self.audit(where + ' (glass box differs)')
                self.count('glass_mismatch_unconfirmed')
                raise Stop()

    async def after_auth(self, c: SieveConn, cmd: dict[str, Any], resp: Resp,
                         where: str) -> None:
        cond = resp.cond.decode()
        fl = cmd['flavour']
        self.count('authenticate_' + fl)
        offered = (c.caps.get(b'SASL') or b'').upper().split()
        if cond == 'BYE' and fl not in ('bad', 'cancel'):
            self.report('c06-bye-on-authenticate', '%s answered %s' % (
                where, resp.brief()))
            raise Stop()
        if fl in ('bad', 'cancel'):
            # NO, or BYE (a server may hang up on failed authentication)
            if cond == 'OK':
                self.aborted = 'other-property:authenticate-%s-accepted' % fl
                self.report('authenticate-%s-credentials-answered-OK' % fl,
                            '%s answered %s' % (where, resp.brief()))
                raise Stop()
            return
        if c.user is not None:
            # re-authentication without UNAUTHENTICATE
            self.count('lat_reauth')
            self.count('latitude_uses')
            if cond == 'OK':
                c.user = cmd['who']
            return
        if fl == 'authzid':
            self.count('lat_authzid')
            self.count('latitude_uses')
            if cond == 'OK':
                c.user = cmd['who']
            return
        if cond == 'OK':
            c.user = cmd['who']
            return
        if b'PLAIN' not in offered:
            self.count('lat_mech_not_offered')
            self.count('latitude_uses')
            return
        self.report('authenticate-good-credentials-answered-NO',
                    '%s answered %s although PLAIN is offered (%r)' % (
                        where, resp.brief(), offered))
        raise Stop()

    async def after_logout(self, c: SieveConn, resp: Resp, where: str) \
            -> None:
        self.count('lat_logout')
        self.count('latitude_uses')
        if resp.cond == b'NO':
            self.report('logout-answered-NO', '%s: %s' % (where,
                                                          resp.brief()))
            raise Stop()
        if not c.gone:
            await self.bury(c)
        c.user = None

    # -- whole programs ---------------------------------------------------------

    async def setup(self) -> None:
        spec = self.spec
        self.users = {'alice': 'pw1', 'bob': 'pw2'}
        self.env = await make_env('dict', users=dict(self.users),
                                  demo=bool(spec.get('demo')))
        self.model = Model(self.users)
        if spec.get('demo'):
            from importlib.resources import files
            demo = files('pymap.backend.dict').joinpath(
                'demo', 'sieve').read_bytes()
            self.users['testuser'] = 'testpass'
            self.model.stores['testuser'] = st = Store()
            st.scripts['demo'] = demo
            st.active = 'demo'
            self.initial['testuser'] = st.snap()
        if spec.get('tls'):
            # STARTTLS offered, no SASL mechanism before it (start_tls of the
            # in-memory transport is a no-op)
            try:
                self.env.config._tls_enabled = True
                assert b'STARTTLS' in self.env.config.initial_capability
                self.count('tls_variant')
            except Exception:
                self.count('tls_variant_unavailable')
        self.names = gen_names(self.rng)

    async def fresh(self, i: int) -> SieveConn:
        c = await self.connect()
        if i < len(self.conns):
            self.conns[i] = c
        else:
            self.conns.append(c)
        return c

    async def random_program(self) -> None:
        rng = self.rng
        spec = self.spec
        await self.setup()
        for i in range(2):
            await self.fresh(i)
        if spec.get('prelude'):
            order = sorted(self.users)
            rng.shuffle(order)
            for i, c in enumerate(self.conns):
                who = order[0 if spec.get('same_user')
                            else i % len(order)]
                tok = base64.b64encode(b'\0%s\0%s' % (
                    who.encode(), self.users[who].encode()))
                await self.step(c, 'AUTHENTICATE', {
                    'wire': b'AUTHENTICATE "PLAIN" "%s"\r\n' % tok,
                    'who': who, 'authz': '', 'flavour': 'good',
                    'desc': 'AUTHENTICATE PLAIN authc=%r (prelude)' % who})
                for _ in range(rng.randint(1, 2)):
                    if c.user is None or c.gone:
                        break
                    await self.step(c, 'PUTSCRIPT')
                if c.user is not None and not c.gone and rng.random() < 0.6:
                    await self.step(c, 'SETACTIVE')
        for _ in range(spec['len']):
            i = rng.randrange(2)
            c = self.conns[i]
            if c.gone or c.dead:
                c = await self.fresh(i)
            await self.step(c, self.pick_kind(c))
        await self.audit('end of program')
        for c in self.conns:
            if not c.dead and not c.gone:
                where = 'between commands'
                if rng.random() < 0.3:
                    # go away in the middle of a (valid) command
                    part = rng.choice([
                        b'PUTSCRIPT "x" {0+}\r\n', b'PUTSCRIPT "x" {7+}\r\nke',
                        b'GETSCRIPT "x', b'CHECKSCRIPT {0+}\r\n',
                        b'PUTSCRIPT {1+}\r\nx {0+}\r\n', b'NOOP',
                        b'AUTHENTICATE "PLAIN" {0+}\r\n'])
                    self.program.append('c%d[%s] partial command %r then EOF'
                                        % (c.cid, c.user or '-', part))
                    c.feed(part)
                    await c.settle()
                    where = 'after the partial command %r' % part
                await self.hangup(c, where)

    # -- scripted triggers ------------------------------------------------------

    async def login(self, c: SieveConn, who: str) -> None:
        tok = base64.b64encode(b'\0%s\0%s' % (who.encode(),
                                              self.users[who].encode()))
        await self.step(c, 'AUTHENTICATE', {
            'wire': b'AUTHENTICATE "PLAIN" "%s"\r\n' % tok, 'who': who,
            'authz': '', 'flavour': 'good',
            'desc': 'AUTHENTICATE PLAIN authc=%r' % who})

    async def script_put_invalid(self) -> None:
        """PUTSCRIPT of octets that are not a sieve script must be refused
        (RFC 5804 2.6) and change nothing."""
        await self.setup()
        c = await self.fresh(0)
        await self.login(c, 'alice')
        bad = b'1234567890'
        await self.step(c, 'PUTSCRIPT', {
            'name': 'x', 'script': bad, 'validity': 'invalid',
            'wire': b'PUTSCRIPT "x" {10+}\r\n' + bad + b'\r\n',
            'last': bad, 'desc': "PUTSCRIPT 'x' <invalid 10 octets>"})
        await self.step(c, 'LISTSCRIPTS', {'wire': b'LISTSCRIPTS\r\n',
                                           'desc': 'LISTSCRIPTS'})
        await self.audit('script')

    async def script_literal_tail(self) -> None:
        """A command whose final literal ends in ``{5+}``: the response must
        arrive without further input."""
        await self.setup()
        c = await self.fresh(0)
        await self.login(c, 'alice')
        name = 'a{3+}'
        await self.step(c, 'PUTSCRIPT', {
            'name': name, 'script': b'keep;\r\n', 'validity': 'valid',
            'wire': b'PUTSCRIPT "a{3+}" {7+}\r\nkeep;\r\n\r\n',
            'last': b'keep;\r\n', 'desc': "PUTSCRIPT 'a{3+}' <valid>"})
        await self.step(c, 'GETSCRIPT', {
            'name': name, 'wire': b'GETSCRIPT {5+}\r\na{3+}\r\n',
            'last': b'a{3+}', 'desc': "GETSCRIPT 'a{3+}' (literal)"})
        if not c.gone:
            await self.step(c, 'NOOP', {'wire': b'NOOP\r\n', 'desc': 'NOOP'})
        await self.audit('script')

    async def script_literal_tail_script(self) -> None:
        """Same with the script argument: a valid script whose last line is a
        comment ending in ``{5+}`` followed by CRLF inside the literal is
        fine, but the same octets ending exactly in ``{5+}`` are not."""
        await self.setup()
        c = await self.fresh(0)
        await self.login(c, 'alice')
        s = b'keep; # {5+}'
        await self.step(c, 'CHECKSCRIPT', {
            'script': s, 'validity': 'unclear',
            'wire': b'CHECKSCRIPT {%d+}\r\n' % len(s) + s + b'\r\n',
            'last': s, 'desc': 'CHECKSCRIPT <keep; # {5+}>'})
        if not c.gone:
            await self.step(c, 'NOOP', {'wire': b'NOOP\r\n', 'desc': 'NOOP'})

    async def script_gate(self) -> None:
        """Authenticate, store, UNAUTHENTICATE: every script command is
        refused again; then the other user sees nothing."""
        await self.setup()
        c = await self.fresh(0)
        await self.login(c, 'alice')
        await self.step(c, 'PUTSCRIPT', {
            'name': 'x', 'script': b'keep;', 'validity': 'valid',
            'wire': b'PUTSCRIPT "x" "keep;"\r\n', 'desc': "PUTSCRIPT 'x'"})
        await self.step(c, 'SETACTIVE', {
            'name': 'x', 'wire': b'SETACTIVE "x"\r\n',
            'desc': "SETACTIVE 'x'"})
        await self.step(c, 'RENAMESCRIPT', {
            'old': 'x', 'new': 'y', 'wire': b'RENAMESCRIPT "x" "y"\r\n',
            'desc': "RENAMESCRIPT 'x' 'y'"})
        await self.step(c, 'LISTSCRIPTS', {'wire': b'LISTSCRIPTS\r\n',
                                           'desc': 'LISTSCRIPTS'})
        await self.step(c, 'UNAUTHENTICATE', {'wire': b'UNAUTHENTICATE\r\n',
                                              'desc': 'UNAUTHENTICATE'})
        for kind, wire in [
                ('GETSCRIPT', b'GETSCRIPT "y"\r\n'),
                ('LISTSCRIPTS', b'LISTSCRIPTS\r\n'),
                ('DELETESCRIPT', b'DELETESCRIPT "y"\r\n'),
                ('SETACTIVE', b'SETACTIVE ""\r\n'),
                ('RENAMESCRIPT', b'RENAMESCRIPT "y" "z"\r\n'),
                ('PUTSCRIPT', b'PUTSCRIPT "y" "discard;"\r\n'),
                ('CHECKSCRIPT', b'CHECKSCRIPT "keep;"\r\n'),
                ('HAVESPACE', b'HAVESPACE "y" 10\r\n'),
                ('UNAUTHENTICATE', b'UNAUTHENTICATE\r\n')]:
            await self.step(c, kind, {
                'wire': wire, 'desc': wire.decode().strip(),
                'name': 'y', 'old': 'y', 'new': 'z', 'script': b'discard;',
                'validity': 'valid'})
        await self.login(c, 'bob')
        await self.step(c, 'LISTSCRIPTS', {'wire': b'LISTSCRIPTS\r\n',
                                           'desc': 'LISTSCRIPTS'})
        await self.step(c, 'GETSCRIPT', {
            'name': 'y', 'wire': b'GETSCRIPT "y"\r\n',
            'desc': "GETSCRIPT 'y'"})
        await self.audit('script')


    async def script_auth_cancel(self) -> None:
        """SASL exchange cancelled by the client with "*" (RFC 5804 2.1): the
        answer must be NO and the server must not treat it as an internal
        error; the gate stays closed."""
        await self.setup()
        c = await self.fresh(0)
        await self.step(c, 'AUTHENTICATE', {
            'wire': b'AUTHENTICATE "PLAIN"\r\n', 'follow': [b'"*"\r\n'],
            'who': 'alice', 'authz': '', 'flavour': 'cancel',
            'desc': 'AUTHENTICATE PLAIN (continuation, cancelled with "*")'})
        await self.step(c, 'LISTSCRIPTS', {'wire': b'LISTSCRIPTS\r\n',
                                           'desc': 'LISTSCRIPTS'})

    async def script_eof_zero_literal(self) -> None:
        """Client disconnects right after a line ending in ``{0+}``."""
        await self.setup()
        c = await self.fresh(0)
        self.program.append('c1[-] PUTSCRIPT "x" {0+} CRLF then EOF')
        c.feed(b'PUTSCRIPT "x" {0+}\r\n')
        await c.settle()
        await self.hangup(c, 'after PUTSCRIPT "x" {0+} CRLF')


async def maildir_single(run: 'Run') -> None:
    """The maildir backend keeps one script per user under the fixed name
    "active" (``SingleFilterSet``).  Within that restriction the statement
    still applies: PUTSCRIPT "active" that is answered OK, then GETSCRIPT
    returns the same bytes - to the same connection, to another connection of
    the user, and not to the other user - and LISTSCRIPTS lists it as
    active."""
    rng = run.rng
    run.users = {'alice': 'pw1', 'bob': 'pw2'}
    run.env = env = await make_env('maildir', users=dict(run.users))
    env.config._tls_enabled = False     # PLAIN without the STARTTLS dance

    async def conn(who: str) -> SieveConn:
        run.ncid += 1
        c = SieveConn(run.ncid, run.log)
        c.start(env.sieve)
        await c.read_response()
        tok = base64.b64encode(b'\0%s\0%s' % (who.encode(),
                                              run.users[who].encode()))
        c.feed(b'AUTHENTICATE "PLAIN" "%s"\r\n' % tok)
        r = await c.read_response()
        if r.cond != b'OK':
            run.aborted = 'maildir-login-refused'
            raise Stop()
        return c

    async def ask(c: SieveConn, line: bytes) -> Resp:
        c.feed(line)
        run.count('commands_checked')
        return await c.read_response()

    def payload(r: Resp) -> bytes | None:
        for line in r.data:
            if line and line[0][0] in 'ql':
                return line[0][1]
        return None

    def names(r: Resp) -> list[tuple[bytes, bool]]:
        return [(line[0][1], len(line) > 1 and line[1][1].upper() == b'ACTIVE')
                for line in r.data if line and line[0][0] in 'ql']
    a1 = await conn('alice')
    a2 = await conn('alice')
    b1 = await conn('bob')
    stored: bytes | None = None
    for k in range(run.spec.get('len', 6)):
        r0 = rng.random()
        if r0 < 0.25:
            script, validity = b'', 'unclear'
        else:
            script, validity = gen_script(rng)
        if validity == 'invalid' or len(script) > SCRIPT_MUST:
            continue
        c = rng.choice([a1, a2])
        if rng.random() < 0.3 and validity == 'valid':
            # another name: the store may refuse it, but what it answers OK
            # it must have stored (the statement is not restricted to the
            # one name this backend keeps)
            other = rng.choice([b'other', b'Active', b'active2', b'x',
                                b'vacation'])
            r = await ask(c, b'PUTSCRIPT "%s" {%d+}\r\n' % (
                other, len(script)) + script + b'\r\n')
            run.count('maildir_other_name_puts')
            if r.cond == b'OK':
                g = await ask(c, b'GETSCRIPT "%s"\r\n' % other)
                if g.cond != b'OK' or payload(g) != script:
                    run.report('putscript-ok-but-not-stored:maildir',
                               'maildir: PUTSCRIPT "%s" <%d octets> answered '
                               'OK; GETSCRIPT "%s": %s' % (
                                   other.decode(), len(script),
                                   other.decode(), g.brief()))
                    return
            continue
        if rng.random() < 0.15 and stored is not None:
            # the active script cannot be deleted
            r = await ask(c, b'DELETESCRIPT "active"\r\n')
            run.count('maildir_delete_active')
            ls = await ask(c, b'LISTSCRIPTS\r\n')
            if r.cond == b'OK' or names(ls) != [(b'active', True)]:
                run.report('active-script-deleted:maildir',
                           'maildir: DELETESCRIPT "active" answered %s; '
                           'LISTSCRIPTS then %r' % (r.cond.decode(),
                                                    names(ls)))
                return
            continue
        r = await ask(c, b'PUTSCRIPT "active" {%d+}\r\n' % len(script) +
                      script + b'\r\n')
        what = 'maildir: PUTSCRIPT "active" <%d octets, %s> answered %s' % (
            len(script), validity, r.cond.decode())
        if r.cond == b'OK':
            stored = script
        elif validity == 'valid':
            run.report('putscript-valid-refused:maildir', what)
            return
        if stored is None:
            continue
        for reader, tag in ((c, 'same connection'),
                            (a2 if c is a1 else a1, 'other connection')):
            g = await ask(reader, b'GETSCRIPT "active"\r\n')
            run.count('payload_comparisons')
            if g.cond != b'OK' or payload(g) != stored:
                run.report('getscript-differs-from-put:maildir',
                           '%s; GETSCRIPT on the %s: %s, payload %r, stored '
                           '%r' % (what, tag, g.brief(),
                                   (payload(g) or b'')[:60], stored[:60]))
                return
            ls = await ask(reader, b'LISTSCRIPTS\r\n')
            run.count('payload_comparisons')
            if ls.cond != b'OK' or names(ls) != [(b'active', True)]:
                run.report('listscripts-omits-stored-name:maildir',
                           '%s; LISTSCRIPTS on the %s: %s %r' % (
                               what, tag, ls.brief(), names(ls)))
                return
        gb = await ask(b1, b'GETSCRIPT "active"\r\n')
        if gb.cond == b'OK' and payload(gb) == stored and stored:
            run.report('script-visible-to-other-user:maildir',
                       'bob reads alice\'s script')
            return
    run.count('maildir_programs')


SCRIPTS = {'maildir-single': maildir_single,
           'put-invalid': Run.script_put_invalid,
           'eof-after-zero-literal': Run.script_eof_zero_literal,
           'auth-cancel': Run.script_auth_cancel,
           'literal-tail-name': Run.script_literal_tail,
           'literal-tail-script': Run.script_literal_tail_script,
           'gate': Run.script_gate}


class C19(Check):
    pid = 'C19'
    level = 'exploration'
    title = 'ManageSieve gate and map semantics'
    rule = ('case = one seeded program of 3-20 ManageSieve commands (plus an '
            'optional checked prelude that logs both connections in and '
            'stores scripts) over two sequentially interleaved connections '
            'and two or three users, names drawn from plain / UTF-8 / '
            'quotes+backslashes / spaces / long / keyword-like / '
            '"{n+}"-tailed classes and sent quoted or as {n+} literals, '
            'scripts valid / invalid / unclear / big; every response is '
            'compared with the reference model, every unauthenticated script '
            'command with the gate oracle, and every program ends with a '
            'fresh-connection audit of all users; distinct = hash of the '
            '(connection, authenticated?, command kind) sequence; '
            'non-trivial = at least 3 commands and at least one gate refusal '
            'or payload comparison')
    assumptions = [
        'dict backend for the general map (the maildir backend keeps a '
        'single fixed-name script and is not a general map; a separate slice '
        'checks put/get/list of that one name on maildir through two '
        'connections of the user and one of the other user); asyncio '
        'subsystem; one command in flight at a time',
        'valid scripts use only constructs of RFC 5228 + fileinto / reject / '
        'envelope with single-line strings (sievelib rejects multi-line '
        '"text:" strings; not attributed to pymap)',
        'names are NFC and contain no control characters (RFC 5804 1.6 '
        'forbids them); names that are not valid UTF-8 are not generated',
        'STARTTLS variant: config._tls_enabled is switched on in the harness; '
        'the in-memory transport\'s start_tls is a no-op',
        'glass box = FilterSet._filters/_active of config.set_cache (dict); '
        'if these internals are renamed the gate falls back to protocol-level '
        'evidence only and glass_unavailable is counted']
    floors = {'commands_checked': 10000, 'preauth_refusals_checked': 1000,
              'payload_comparisons': 3000, 'cross_user_list_checks': 1500,
              'audits': 500}
    time_cap = {'quick': 60.0, 'thorough': 600.0}

    def cases(self, tier: str, seed: int) -> Iterable[dict[str, Any]]:
        n = 8000 if tier == 'quick' else 120000
        rng = random.Random(seed * 7919 + 19)
        for i in range(n // 40):
            yield {'seed': seed * 1_000_003 + i, 'script': 'maildir-single',
                   'len': 6}
        for i in range(n):
            yield {'seed': seed * 1_000_003 + i,
                   'len': rng.randint(3, 20),
                   'prelude': rng.random() < 0.6,
                   'demo': rng.random() < 0.2,
                   'tls': rng.random() < 0.15,
                   'same_user': i % 4 == 1}

    def setup_worker(self) -> None:
        lg = logging.getLogger('pymap')
        if LOGCAP not in lg.handlers:
            lg.addHandler(LOGCAP)
        lg.propagate = False

    def run_case(self, spec: dict[str, Any]) -> dict[str, Any]:
        self.setup_worker()
        del LOGCAP.records[:]
        run = Run(spec)

        async def main(loop: L.CtlLoop) -> None:
            try:
                if 'script' in spec:
                    await SCRIPTS[spec['script']](run)
                else:
                    await run.random_program()
            except Stop:
                pass
            finally:
                if run.env is not None:
                    run.env.cleanup()

        try:
            _, loop = L.run(main, max_steps=400_000)
            if loop.exceptions and not run.violations and not run.aborted:
                run.aborted = 'loop-exception:%s' % (
                    loop.exceptions[0].get('exception'),)
        except L.Deadlock:
            run.aborted = run.aborted or 'deadlock'
        except L.StepLimit:
            run.aborted = run.aborted or 'step-limit'
        viol = run.violations
        aborted = run.aborted
        if aborted and aborted.startswith('other-property:'):
            viol = []
        sig = hashlib.sha1(' '.join(run.kinds).encode()).hexdigest()[:16]
        c = run.counters
        return {'violations': viol, 'counters': c, 'sig': sig,
                'nontrivial': c.get('commands_checked', 0) >= 3 and (
                    c.get('preauth_refusals_checked', 0) > 0 or
                    c.get('payload_comparisons', 0) > 0),
                'sample': {'spec': spec, 'program': run.program[:40]},
                'aborted': aborted}


CHECK = C19()
