"""C03 -- message bytes are stored and returned verbatim.

Deciding monitor: byte equality between what APPEND accepted and every
literal the server later returns for it -- a pure function of the input b:
BODY[] = RFC822 = b, RFC822.SIZE = len(b), BODY[HEADER] + BODY[TEXT] = b,
BODY[]<o.n> = b[o:o+n], the same for COPY and MOVE copies, and for every
leaf part announced in BODYSTRUCTURE the octet count equals len(BODY[part])
as returned."""

from __future__ import annotations

import hashlib
import random
import re
from typing import Any, Iterable

from .. import loop as L
from ..net import Conn, Sched
from ..runner import Check
from ..servers import make_env

NL = {'crlf': b'\r\n', 'lf': b'\n', 'cr': b'\r', 'mixed': None}


def gen_message(rng: random.Random) -> tuple[bytes, tuple[Any, ...]]:
    """Returns (bytes, class tuple)."""
    nlk = rng.choice(['crlf', 'crlf', 'crlf', 'lf', 'cr', 'mixed'])

    def nl() -> bytes:
        if nlk == 'mixed':
            return rng.choice([b'\r\n', b'\n', b'\r', b'\n\r', b'\r\r\n'])
        return NL[nlk]  # type: ignore[return-value]

    kind = rng.random()
    depth = 0
    has_sep = True
    if kind < 0.12:
        n = rng.choice([0, 1, 2, 3, 10, 100, 1000, 65536])
        b = bytes(rng.randrange(256) for _ in range(min(n, 3000)))
        if n > 3000:
            b = b * (n // 3000)
        has_sep = b'\n\n' in b or b'\r\n\r\n' in b
    elif kind < 0.3:
        # header only / no separator variants
        hdr = [b'Subject: s%d' % rng.randrange(100), b'From: a@b',
               b'X-Pad: ' + b'p' * rng.randint(0, 80)]
        rng.shuffle(hdr)
        b = b''
        for h in hdr[:rng.randint(1, 3)]:
            b += h + nl()
        r = rng.random()
        if r < 0.3:
            b = b[:-len(nl())] if nlk != 'mixed' else b.rstrip(b'\r\n')
        has_sep = False
    elif kind < 0.6:
        hdr = b''
        for k in range(rng.randint(0, 5)):
            hdr += b'H%d: %s' % (k, b'v' * rng.randint(0, 30)) + nl()
            if rng.random() < 0.2:
                hdr += b' folded' + nl()
        body = b''
        for k in range(rng.randint(0, 6)):
            body += rng.choice([b'line %d' % k, b'', b' ', b'\t', b'x' * 200,
                                b'\x00\x01', b'\xff\xfe 8bit',
                                b'From here', b'.', b'--']) + nl()
        r = rng.random()
        if r < 0.25 and body:
            body = body.rstrip(b'\r\n')          # no final newline
        elif r < 0.4:
            body += rng.choice([b' ', b'\t ', b'  \t'])   # ws-only last line
        elif r < 0.5:
            body += nl() + nl()
        b = hdr + nl() + body
    else:
        depth = rng.randint(1, 3)
        b = mime_tree(rng, depth, nl)
    if rng.random() < 0.08:
        b = b'From MAILER-DAEMON Mon Jan  1 00:00:00 2024' + nl() + b
    if rng.random() < 0.1:
        pad = rng.choice([1000, 5000, 20000, 65536 - len(b)])
        if pad > 0:
            b += b'z' * pad
    b = b[:65536]
    last = b.split(b'\n')[-1]
    klass = (nlk, has_sep, b[-1:] in (b'\n', b'\r'),
             bool(last) and not last.strip(), b'\x00' in b,
             any(c >= 0x80 for c in b[:4000]), depth)
    return b, klass


def mime_tree(rng: random.Random, depth: int, nl: Any) -> bytes:
    if depth == 0:
        r = rng.random()
        if r < 0.5:
            return (b'Content-Type: text/plain' + nl() + nl() +
                    rng.choice([b'', b'leaf', b'leaf' + nl(),
                                b'a' + nl() + b'b' + nl()]))
        if r < 0.7:
            return (b'Content-Type: application/octet-stream' + nl() +
                    b'Content-Transfer-Encoding: base64' + nl() + nl() +
                    b'AAEC' + nl())
        if r < 0.85:
            return (b'Content-Type: message/rfc822' + nl() + nl() +
                    b'Subject: inner' + nl() + nl() + b'inner body' + nl())
        return b'X-No-Type: 1' + nl() + nl() + b'untyped' + nl()
    b = b'b%d' % depth
    out = b'Content-Type: multipart/mixed; boundary="' + b + b'"' + nl() + \
        b'Subject: d%d' % depth + nl() + nl()
    if rng.random() < 0.5:
        out += b'preamble' + nl()
    for _ in range(rng.randint(1, 3)):
        out += b'--' + b + nl() + mime_tree(
            rng, depth - 1 if rng.random() < 0.7 else 0, nl)
        if rng.random() < 0.8:
            out += nl()
    out += b'--' + b + b'--' + nl()
    if rng.random() < 0.3:
        out += b'epilogue' + nl()
    return out


def twin(rng: random.Random, b: bytes) -> bytes:
    """Same length, different bytes, equal under position-weighted and plain
    additive checksums: +1/-2/+1 on three consecutive bytes, a swap of two
    equal-length lines, or a swap of two adjacent bytes."""
    out = bytearray(b)
    kind = rng.random()
    if kind < 0.6:
        cands = [i for i in range(len(out) - 2)
                 if 0x21 <= out[i] < 0x7e and 0x23 <= out[i + 1] <= 0x7e
                 and 0x21 <= out[i + 2] < 0x7e
                 and out[i] not in b':' and out[i + 1] not in b':'
                 and out[i + 2] not in b':']
        if cands:
            i = rng.choice(cands)
            out[i] += 1
            out[i + 1] -= 2
            out[i + 2] += 1
            return bytes(out)
    if kind < 0.8 and len(out) > 3:
        i = rng.randrange(len(out) - 1)
        out[i], out[i + 1] = out[i + 1], out[i]
        return bytes(out)
    lines = b.split(b'\n')
    same = [(i, j) for i in range(len(lines)) for j in range(i + 1, len(lines))
            if len(lines[i]) == len(lines[j]) and lines[i] != lines[j]]
    if same:
        i, j = rng.choice(same)
        lines[i], lines[j] = lines[j], lines[i]
        return b'\n'.join(lines)
    return b


def relation(want: bytes, got: bytes | None) -> str:
    if got is None:
        return 'nil'
    if got == want:
        return 'equal'
    if got == want[:-1]:
        return 'last-byte-dropped'
    if got == want.replace(b'\r\n', b'\n'):
        return 'crlf-to-lf'
    if len(got) < len(want):
        return 'shorter'
    if len(got) > len(want):
        return 'longer'
    return 'same-length-different'


def leaf_parts(bs: Any, prefix: tuple[int, ...] = (), enc: bool = False) \
        -> list[tuple[tuple[int, ...], int, bool]]:
    """(part path, announced octets, numbered through an encapsulated
    message) for every non-multipart part."""
    if bs is None or bs[0] != 'list' or not bs[1]:
        return []
    items = bs[1]
    if items[0][0] == 'list':
        out = []
        k = 0
        for it in items:
            if it[0] != 'list':
                break
            k += 1
            out += leaf_parts(it, prefix + (k,), enc)
        return out
    if len(items) > 6 and items[6][0] == 'num':
        own = prefix or (1,)
        is_msg = items[0][1].lower() == b'message' \
            and items[1][1].lower() == b'rfc822'
        out = [(own, items[6][1], enc or (is_msg and not prefix))]
        if items[0][1].lower() == b'message' \
                and items[1][1].lower() == b'rfc822' and len(items) > 8 \
                and items[8][0] == 'list' and items[8][1]:
            # RFC 3501 6.4.5: part numbers below a message/rfc822 part refer
            # to the parts of the encapsulated message (n.1 is its only part
            # when it is not multipart)
            inner = items[8]
            if inner[1][0][0] == 'list':
                out += leaf_parts(inner, own, True)
            else:
                out += leaf_parts(inner, own + (1,), True)
        return out
    return []


class Ctx:
    def __init__(self, backend: str) -> None:
        self.violations: list[dict[str, Any]] = []
        self.counters: dict[str, int] = {}
        self.backend = 'maildir' if backend.startswith('maildir') else backend

    def count(self, k: str, n: int = 1) -> None:
        self.counters[k] = self.counters.get(k, 0) + n

    def compare(self, what: str, want: bytes, got: bytes | None,
                b: bytes, cmd: bytes) -> None:
        self.count('comparisons')
        rel = relation(want, got)
        if rel == 'equal':
            return
        if len(self.violations) < 6:
            self.violations.append({
                'mech': '%s:%s:%s' % (what, rel, self.backend),
                'detail': '%s: expected %d bytes %r..., got %s %r...'
                % (cmd[:60], len(want), want[:40],
                   'NIL' if got is None else len(got), (got or b'')[:40]),
                'witness': {'message': b[:3000], 'want_tail': want[-40:],
                            'got_tail': (got or b'')[-40:]}})


async def fetch1(c: Conn, n: int, attrs: bytes) -> dict[bytes, Any] | None:
    r = await c.simple(b'FETCH %d (%s)' % (n, attrs))
    if not r.ok:
        return None
    for u in r.untagged:
        if u.typ == b'FETCH' and u.num == n and isinstance(u.data, dict):
            return u.data
    return {}


async def check_message(ctx: Ctx, c: Conn, n: int, b: bytes,
                        rng: random.Random, tag: str) -> None:
    att = await fetch1(c, n, b'RFC822.SIZE BODY.PEEK[] RFC822')
    if att is None:
        ctx.count('fetch_refused')
        return
    ctx.compare(tag + 'body', b, att.get(b'BODY[]'), b, b'BODY[]')
    ctx.compare(tag + 'rfc822', b, att.get(b'RFC822'), b, b'RFC822')
    ctx.count('comparisons')
    if att.get(b'RFC822.SIZE') != len(b):
        ctx.violations.append({
            'mech': '%ssize:%s:%s' % (tag, 'off-by-%d' % (
                (att.get(b'RFC822.SIZE') or 0) - len(b))
                if abs((att.get(b'RFC822.SIZE') or 0) - len(b)) < 3
                else 'different', ctx.backend),
            'detail': 'RFC822.SIZE %r, len(b) %d' % (
                att.get(b'RFC822.SIZE'), len(b)),
            'witness': {'message': b[:3000]}})
    # the size must not depend on what else is asked for: alone and with
    # metadata only (a backend may then skip loading the message)
    for attrs in (b'RFC822.SIZE', b'FLAGS INTERNALDATE RFC822.SIZE'):
        att1 = await fetch1(c, n, attrs)
        ctx.count('size_alone_comparisons')
        if att1 is not None and att1.get(b'RFC822.SIZE') != len(b):
            ctx.violations.append({
                'mech': '%ssize-without-content-attributes:%s' % (
                    tag, ctx.backend),
                'detail': 'FETCH (%s): RFC822.SIZE %r, len(b) %d' % (
                    attrs.decode(), att1.get(b'RFC822.SIZE'), len(b)),
                'witness': {'message': b[:3000]}})
    att = await fetch1(c, n, b'BODY.PEEK[HEADER] BODY.PEEK[TEXT] '
                       b'RFC822.HEADER')
    if att is not None:
        h, t = att.get(b'BODY[HEADER]'), att.get(b'BODY[TEXT]')
        if h is not None and t is not None:
            ctx.compare(tag + 'header+text', b, h + t, b,
                        b'BODY[HEADER]+BODY[TEXT]')
        else:
            ctx.compare(tag + 'header+text', b, None, b,
                        b'BODY[HEADER]+BODY[TEXT]')
        if att.get(b'RFC822.HEADER') is not None and h is not None:
            ctx.compare(tag + 'rfc822.header', h, att[b'RFC822.HEADER'], b,
                        b'RFC822.HEADER vs BODY[HEADER]')
    # partial ranges around the ends
    ln = len(b)
    cands = [(0, 1), (0, ln), (0, ln + 10), (max(ln - 1, 0), 1),
             (max(ln - 1, 0), 5), (ln, 1), (ln + 5, 3), (1, max(ln - 2, 1)),
             (rng.randint(0, ln), rng.randint(1, ln + 1)),
             (rng.randint(0, ln), rng.randint(1, 20)), (0, 4294967295),
             (ln // 2, ln)]
    for o, k in rng.sample(cands, 4):
        att = await fetch1(c, n, b'BODY.PEEK[]<%d.%d>' % (o, k))
        if att is None:
            ctx.count('partial_refused')
            continue
        key = b'BODY[]<%d>' % o
        ctx.count('partials')
        ctx.compare(tag + 'partial', b[o:o + k], att.get(key), b,
                    b'BODY[]<%d.%d>' % (o, k))


async def check_structure(ctx: Ctx, c: Conn, n: int, b: bytes) -> None:
    att = await fetch1(c, n, b'BODYSTRUCTURE')
    if not att or b'BODYSTRUCTURE' not in att:
        return
    bs = att[b'BODYSTRUCTURE']
    leaves = leaf_parts(bs)
    multipart = bool(bs and bs[0] == 'list' and bs[1]
                     and bs[1][0][0] == 'list')
    # (an encoding the server does not know ends BINARY in a torn response,
    # a known finding of C06: such messages are left to it)
    known_cte = all(
        v.strip().lower() in (b'7bit', b'8bit', b'binary', b'base64',
                              b'quoted-printable')
        for v in re.findall(rb'(?i)content-transfer-encoding:([^\n]*)', b))
    for path, octets, enc in leaves[:12]:
        sect = b'.'.join(b'%d' % k for k in path)
        att2 = await fetch1(c, n, b'BODY.PEEK[%s]' % sect)
        if att2 is None:
            continue
        got = att2.get(b'BODY[%s]' % sect)
        ctx.count('part_octet_comparisons')
        if got is None or len(got) != octets:
            # structural classification: does the announced count equal the
            # part's own header plus its body?
            hsect = (sect + b'.MIME') if multipart or len(path) > 1 \
                else b'HEADER'
            att3 = await fetch1(c, n, b'BODY.PEEK[%s]' % hsect)
            hdr = (att3 or {}).get(b'BODY[%s]' % hsect)
            if got is None:
                rel = 'nil'
            elif hdr is not None and octets == len(hdr) + len(got):
                rel = 'includes-part-header'
            elif enc:
                rel = 'encapsulated-message-numbering'
            else:
                rel = 'announced-larger' if octets > len(got) \
                    else 'announced-smaller'
            if len(ctx.violations) < 6:
                ctx.violations.append({
                    'mech': 'bodystructure-octets:%s' % rel,
                    'detail': 'part %s announced %d octets, BODY[%s] returned '
                    '%s' % (sect.decode(), octets, sect.decode(),
                            'NIL' if got is None else len(got)),
                    'witness': {'message': b[:3000]}})
        if known_cte and got is not None:
            # the same section decoded (BINARY) and as it is (BODY) in one
            # command, the decoded form first: what BODY[..] returns must
            # not depend on what else was asked for, before or along with it
            att4 = await fetch1(c, n, b'BINARY.PEEK[%s] BODY.PEEK[%s]'
                                % (sect, sect))
            ctx.count('body_with_binary_comparisons')
            if c.dead:
                # torn by the decoder: C06's business, and nothing after it
                # on this connection can be judged
                ctx.count('binary_fetch_killed_connection')
                return
            if att4 is not None and att4.get(b'BODY[%s]' % sect) != got \
                    and len(ctx.violations) < 6:
                ctx.violations.append({
                    'mech': 'body-differs-when-fetched-with-binary:%s'
                    % ctx.backend,
                    'detail': 'BODY[%s] alone returned %d octets %r..., '
                    'after BINARY.PEEK[%s] in the same FETCH %r' % (
                        sect.decode(), len(got), got[:30], sect.decode(),
                        (att4.get(b'BODY[%s]' % sect) or b'NIL')[:30]),
                    'witness': {'message': b[:3000]}})


async def run_c03(spec: dict[str, Any], ctx: Ctx, info: dict[str, Any]) \
        -> None:
    rng = random.Random(spec['seed'])
    env = await make_env(spec['backend'], {'u1': 'pw1'})
    try:
        c = Conn(1, Sched())
        c.start(env.imap)
        await c.greeting()
        await c.simple(b'LOGIN u1 pw1')
        await c.simple(b'CREATE Copies')
        msgs: list[bytes] = []
        for k in range(spec['nmsgs']):
            if 'msg' in spec:
                b, klass = spec['msg'].encode('latin-1'), ('script',)
            elif msgs and spec.get('twins'):
                # a different message that collides with the previous one
                # under weak checksums (sums, Fletcher/Adler, XOR)
                b, klass = twin(rng, msgs[-1]), ('twin',)
                if b == msgs[-1]:
                    b, klass = gen_message(rng)
                else:
                    ctx.count('twin_messages')
            else:
                b, klass = gen_message(rng)
            how = rng.choice(['plus', 'plus', 'sync', 'binary'])
            tag = c.next_tag()
            if how == 'sync':
                r = await c.command(tag, [
                    tag + b' APPEND INBOX {%d}\r\n' % len(b), b + b'\r\n'])
            elif how == 'binary':
                r = await c.command(tag, [
                    tag + b' APPEND INBOX ~{%d+}\r\n' % len(b) + b + b'\r\n'])
            else:
                r = await c.command(tag, [
                    tag + b' APPEND INBOX {%d+}\r\n' % len(b) + b + b'\r\n'])
            if c.dead:
                info['aborted'] = 'connection-died-on-append'
                return
            if not r.ok:
                ctx.count('append_refused')
                continue
            ctx.count('messages')
            info['classes'].add(klass)
            msgs.append(b)
        if not msgs:
            return
        r = await c.simple(b'SELECT INBOX')
        if not r.ok:
            return
        for n, b in enumerate(msgs, 1):
            await check_message(ctx, c, n, b, rng, '')
            if c.dead:
                info['aborted'] = 'connection-died'
                return
            await check_structure(ctx, c, n, b)
            if c.dead:
                info['aborted'] = 'connection-died'
                return
        # copies
        r = await c.simple(b'COPY 1:* Copies')
        moved = False
        if r.ok and rng.random() < 0.5:
            r2 = await c.simple(b'MOVE 1 Copies')
            moved = r2.ok
        r = await c.simple(b'SELECT Copies')
        if r.ok:
            for n, b in enumerate(msgs, 1):
                await check_message(ctx, c, n, b, rng, 'copy-')
                if c.dead:
                    info['aborted'] = 'connection-died'
                    return
            if moved:
                await check_message(ctx, c, len(msgs) + 1, msgs[0], rng,
                                    'move-')
        # a second connection that had looked at Copies before reads the
        # same bytes (per-connection caches of parsed content)
        c2 = Conn(2, Sched())
        c2.start(env.imap)
        await c2.greeting()
        await c2.simple(b'LOGIN u1 pw1')
        r = await c2.simple(b'EXAMINE Copies')
        if r.ok and not c2.dead:
            for n, b in enumerate(msgs, 1):
                att = await fetch1(c2, n, b'BODY.PEEK[] RFC822.SIZE')
                ctx.count('second_connection_comparisons')
                if att is not None:
                    ctx.compare('other-connection-body', b,
                                att.get(b'BODY[]'), b, b'BODY[]')
        # a re-created mailbox re-uses UIDs: content must be the new one
        if not c.dead and spec.get('recreate'):
            await c.simple(b'CLOSE')
            r1 = await c.simple(b'DELETE Copies')
            r2 = await c.simple(b'CREATE Copies')
            if r1.ok and r2.ok:
                fresh: list[bytes] = []
                for _ in range(len(msgs)):
                    b2, _ = gen_message(rng)
                    tag = c.next_tag()
                    r = await c.command(tag, [
                        tag + b' APPEND Copies {%d+}\r\n' % len(b2) + b2 +
                        b'\r\n'])
                    if r.ok:
                        fresh.append(b2)
                r = await c.simple(b'SELECT Copies')
                if r.ok:
                    ctx.count('recreated_mailboxes')
                    for n, b2 in enumerate(fresh, 1):
                        await check_message(ctx, c, n, b2, rng, 'recreated-')
                        if c.dead:
                            info['aborted'] = 'connection-died'
                            return
                # ... also for the connection that knew the old incarnation
                # (it must be told BYE or be shown the new content)
                if not c2.dead:
                    r = await c2.simple(b'EXAMINE Copies')
                    if r.ok and not c2.dead:
                        for n, b2 in enumerate(fresh, 1):
                            att = await fetch1(c2, n, b'BODY.PEEK[]')
                            ctx.count('second_connection_comparisons')
                            if att is not None:
                                ctx.compare('other-connection-recreated-body',
                                            b2, att.get(b'BODY[]'), b2,
                                            b'BODY[]')
        if not c.dead:
            await c.simple(b'LOGOUT')
    finally:
        env.cleanup()


class C03(Check):
    pid = 'C03'
    level = 'exploration'
    rule = ('case = 1-3 generated messages (line-ending class x has-separator '
            'x final-newline x whitespace-only-last-line x NUL x 8-bit x MIME '
            'depth) appended via {n}, {n+} or ~{n+}, each fetched with BODY[], '
            'RFC822, RFC822.SIZE, HEADER+TEXT, 4 partial ranges around the '
            'ends, BODYSTRUCTURE leaf octets, then COPY/MOVE copies; distinct '
            '= distinct class tuples; non-trivial = at least one message was '
            'accepted and compared')
    assumptions = ['messages <= 64 KiB', 'dict and maildir(++); redis cannot '
                   'run here',
                   'line counts are not checked (not in the statement)']
    floors = {'messages': 1500, 'comparisons': 15000, 'partials': 4000,
              'part_octet_comparisons': 500, 'twin_messages': 100,
              'recreated_mailboxes': 100}

    def cases(self, tier: str, seed: int) -> Iterable[dict[str, Any]]:
        n = 1600 if tier == 'quick' else 40000
        rng = random.Random(seed * 3301 + 3)
        for i in range(n):
            yield {'seed': seed * 1_000_003 + i,
                   'backend': rng.choice(['dict', 'dict', 'maildir']),
                   'nmsgs': rng.randint(1, 3),
                   'twins': rng.random() < 0.3,
                   'recreate': rng.random() < 0.3}

    def run_case(self, spec: dict[str, Any]) -> dict[str, Any]:
        random.seed(spec['seed'])
        ctx = Ctx(spec['backend'])
        info: dict[str, Any] = {'classes': set(), 'aborted': None}

        async def main(loop: L.CtlLoop) -> None:
            await run_c03(spec, ctx, info)

        try:
            L.run(main, max_steps=2_000_000)
        except L.Deadlock:
            info['aborted'] = 'deadlock'
        seen: set[str] = set()
        uniq = []
        for v in ctx.violations:
            if v['mech'] not in seen:
                seen.add(v['mech'])
                uniq.append(v)
        classes = sorted(map(repr, info['classes']))
        sig = hashlib.sha1(repr(classes).encode()).hexdigest()[:16]
        return {'violations': uniq, 'counters': ctx.counters, 'sig': sig,
                'nontrivial': ctx.counters.get('messages', 0) > 0,
                'sample': {'spec': spec, 'classes': classes[:3]},
                'aborted': info['aborted']}


CHECK = C03()
