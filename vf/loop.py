"""M1: controlled asyncio event loop with virtual time.

* The ready queue stays strictly FIFO (asyncio's documented order); one handle
  is run per step.
* Time is virtual: it advances only when nothing is runnable, straight to the
  next timer.  Wall-clock never decides anything.
* ``quiescent()`` returns a future that the loop resolves when no callback is
  runnable (every task is blocked on an external event or on a timer).
* If nothing is runnable, no timer is pending and nobody waits for quiescence,
  the program under test is deadlocked: ``Deadlock`` is raised out of
  ``run_until_complete``.

Exploration of schedules happens *outside* this class: harness tasks delay
their external events (feeding input, completing ``drain()``, cancelling a
task) by a chosen number of passes through the ready queue (``asyncio.sleep(0)``
from a harness task), which is exactly the freedom a real network peer has.
"""

from __future__ import annotations

import asyncio
import heapq
from asyncio import base_events, events
from typing import Any, Callable


class Deadlock(RuntimeError):
    pass


class StepLimit(RuntimeError):
    pass


class CtlLoop(base_events.BaseEventLoop):

    def __init__(self, *, max_steps: int = 5_000_000) -> None:
        super().__init__()
        self._vtime = 0.0
        self.steps = 0
        self.max_steps = max_steps
        self._quiescent_waiters: list[asyncio.Future[None]] = []
        self.on_step: Callable[[int], None] | None = None
        self.quiescent_count = 0
        self.exceptions: list[dict[str, Any]] = []
        self.set_exception_handler(self._record_exception)

    # -- plumbing required by BaseEventLoop ---------------------------------

    def time(self) -> float:
        return self._vtime

    def _process_events(self, event_list: Any) -> None:  # pragma: no cover
        pass

    def _write_to_self(self) -> None:
        pass

    def _record_exception(self, loop: Any, context: dict[str, Any]) -> None:
        self.exceptions.append({
            'message': context.get('message'),
            'exception': repr(context.get('exception'))})

    # -- harness API ---------------------------------------------------------

    def quiescent(self) -> 'asyncio.Future[None]':
        fut = self.create_future()
        self._quiescent_waiters.append(fut)
        return fut

    def advance(self, dt: float) -> 'asyncio.Future[None]':
        """Let ``dt`` seconds of virtual time pass (a plain timer)."""
        fut = self.create_future()
        self.call_later(dt, lambda: fut.done() or fut.set_result(None))
        return fut

    # -- the scheduler -------------------------------------------------------

    def _run_once(self) -> None:
        sched = self._scheduled
        # drop cancelled timers at the head
        while sched and sched[0]._cancelled:
            self._timer_cancelled_count -= 1
            handle = heapq.heappop(sched)
            handle._scheduled = False
        if not self._ready:
            # due timers first
            self._move_due_timers()
        if not self._ready:
            if self._quiescent_waiters:
                self.quiescent_count += 1
                waiters, self._quiescent_waiters = \
                    self._quiescent_waiters, []
                for fut in waiters:
                    if not fut.done():
                        fut.set_result(None)
            elif sched:
                self._vtime = max(self._vtime, sched[0]._when)
                self._move_due_timers()
            else:
                raise Deadlock('nothing runnable, no timer, nobody waiting '
                               'for quiescence')
        if not self._ready:
            return
        handle = self._ready.popleft()
        if handle._cancelled:
            return
        self.steps += 1
        if self.steps > self.max_steps:
            raise StepLimit(self.steps)
        if self.on_step is not None:
            self.on_step(self.steps)
        handle._run()
        handle = None

    def _move_due_timers(self) -> None:
        sched = self._scheduled
        while sched:
            handle = sched[0]
            if handle._when > self._vtime:
                break
            handle = heapq.heappop(sched)
            handle._scheduled = False
            if handle._cancelled:
                self._timer_cancelled_count -= 1
                continue
            self._ready.append(handle)


def run(coro_fn: Callable[[CtlLoop], Any], *, max_steps: int = 5_000_000) \
        -> tuple[Any, CtlLoop]:
    """Run ``coro_fn(loop)`` to completion on a fresh CtlLoop."""
    loop = CtlLoop(max_steps=max_steps)
    old = None
    try:
        old = events._get_running_loop()
    except Exception:  # pragma: no cover
        pass
    asyncio.set_event_loop(loop)
    try:
        result = loop.run_until_complete(coro_fn(loop))
        return result, loop
    finally:
        try:
            _cancel_all(loop)
        finally:
            asyncio.set_event_loop(None)
            loop.close()


def _cancel_all(loop: CtlLoop) -> None:
    tasks = [t for t in asyncio.all_tasks(loop) if not t.done()]
    if not tasks:
        return
    for t in tasks:
        t.cancel()
    loop._quiescent_waiters.clear()

    async def _gather() -> None:
        await asyncio.gather(*tasks, return_exceptions=True)
    try:
        loop.run_until_complete(_gather())
    except (Deadlock, StepLimit, RuntimeError):
        pass
