import time, sys
from vf.c20_threads import ThreadRun
for reps, rounds in ((40,10),(10,50),(4,200)):
  for tasks in ([['W1'],['W1']], [['R1', 'W1'], ['W1', 'R1']], [['W2'],['W1'],['W1b'],['W2b']]):
    t=time.time()
    r = ThreadRun(tasks, reps, rounds)
    ab = r.run()
    print(reps, rounds, tasks, 'abort', ab, 'reps', r.reps_done, 'checked', r.checked, 'contended', r.contended, 'rwb', r.req_while_busy, round(time.time()-t,3), r.viol and (r.viol['mech'], r.viol['rep'], r.viol['detail']))
