import sys, json
from vf.checks.c19 import CHECK
from vf.runner import _safe_run, _jsonable
CHECK.setup_worker()
for name in sys.argv[1:]:
    spec = {'script': name, 'seed': 1} if not name.isdigit() else {'seed': int(name), 'len': 20, 'prelude': True, 'demo': False, 'tls': False}
    res = _safe_run(CHECK, spec)
    if res.get('harness_error'): print(res['harness_error'])
    for v in res['violations']:
        print('VIOL', v['mech'], '--', v['detail'][:500])
        print('\n'.join(v['witness']['program']))
        print('\n'.join(v['witness']['transcript'][-30:]))
    print(name, 'aborted', res['aborted'], res['counters'])
    if not res['violations']:
        print('\n'.join(res['sample']['program']))
