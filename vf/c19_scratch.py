import sys, json, time
from vf.checks.c19 import CHECK
from vf.runner import _safe_run, _jsonable
CHECK.setup_worker()
spec = json.loads(sys.argv[1])
want = sys.argv[2] if len(sys.argv) > 2 else None
t=time.time()
res = _safe_run(CHECK, spec)
print('time %.2f' % (time.time()-t))
if res.get('harness_error'): print(res['harness_error'])
for v in res['violations']:
    if want and want not in v['mech']: continue
    print('VIOL', v['mech'], '--', v['detail'][:700])
    print('\n'.join(v['witness']['program'][-12:]))
    print('\n'.join(x[:400] for x in v['witness']['transcript'][-14:]))
print('aborted', res['aborted'], res['counters'])
if not res['violations']:
    print('\n'.join(res['sample']['program']))
