import sys, time, hashlib
from vf import loop as L
from vf.c20_inloop import *

def sweep(impl, tasks, gaps, cancel, bound=20000, path=None):
    res = {'n': 0, 'viol': {}, 'sigs': set(), 'checked': 0, 'cancel_runs': 0}
    async def main(loop):
        prefix = []
        while prefix is not None and res['n'] < bound:
            ch = Chooser(prefix)
            r = Run(loop, make_lock(impl, path), impl, tasks, ch, gaps, cancel, path)
            await r.execute()
            res['n'] += 1
            res['checked'] += r.checked
            res['cancel_runs'] += r.cancelled is not None
            res['sigs'].add(hash(tuple(r.log)))
            if r.viol and r.viol['mech'] not in res['viol']:
                res['viol'][r.viol['mech']] = (r.viol, r.sched, r.log, [c for c,_ in ch.trail])
            prefix = next_prefix(ch.trail)
        res['complete'] = prefix is None
    L.run(main, max_steps=10**12)
    return res

if __name__ == '__main__':
    t=time.time()
    r = sweep('asyncio', [['W1'],['R1'],['R1']], ['q'], None)
    print(r['n'], r['complete'], len(r['sigs']), r['checked'], time.time()-t)
    for m,(v,s,l,c) in r['viol'].items(): print(m, v, s, l, c)
    t=time.time()
    r = sweep('asyncio', [['W1'],['R1']], ['q',0,1], {'task':1,'step':1})
    print(r['n'], r['complete'], len(r['sigs']), r['checked'], r['cancel_runs'], time.time()-t)
    for m,(v,s,l,c) in r['viol'].items(): print(m, v, s, l, c)
    t=time.time()
    r = sweep('asyncio', [['W1','R1'],['R1','W1'],['R1','R1']], ['q'], None)
    print(r['n'], r['complete'], len(r['sigs']), r['checked'], time.time()-t, list(r['viol']))
    t=time.time()
    r = sweep('asyncio', [['W1'],['R1'],['R1']], ['q',0,1], None)
    print(r['n'], r['complete'], len(r['sigs']), r['checked'], time.time()-t, list(r['viol']))
