"""M8: filesystem monitor built on ``sys.addaudithook`` (+ wrappers for the
stat family, which CPython does not audit).

* records every filesystem event while ``active`` with its resolved path
  (``os.path.realpath`` of the *argument*; audit events fire before the call
  executes);
* **vetoes** (raises ``PermissionError`` from the hook) any mutating event
  whose resolved path leaves ``allowed_root`` so that a traversal bug cannot
  damage the machine;
* ``kill_at``: exit the process (``os._exit(77)``) right before the k-th
  mutating event executes (crash points, M9);
* ``fail_at``: raise ``OSError(errno)`` instead of the k-th mutating event
  (fault injection with "did not happen" semantics).

Audit hooks cannot be removed: install only in short-lived / forked
processes.  The hook does nothing unless ``MON.active``."""

from __future__ import annotations

import errno
import os
import sys
from typing import Any, Callable

MUTATING = {'os.mkdir', 'os.rmdir', 'os.remove', 'os.rename', 'os.link',
            'os.symlink', 'os.utime', 'os.chmod', 'os.truncate',
            'os.chown', 'shutil.rmtree', 'shutil.move', 'open:w',
            'os.replace'}
#: operations that can realistically fail with ENOSPC/EDQUOT (creating a file
#: or directory entry); unlink/utime do not, and making them fail would model
#: a broken disk (EIO), where nothing can be promised
FAILABLE = {'open:w', 'os.mkdir', 'os.link', 'os.symlink', 'os.rename'}
READING = {'open:r', 'os.listdir', 'os.scandir', 'os.walk', 'stat',
           'os.chdir', 'glob.glob'}


class Event:
    __slots__ = ('kind', 'path', 'path2', 'raw', 'raw2', 'mutating', 'idx',
                 'vetoed')

    def __init__(self, kind: str, path: str, raw: str, mutating: bool,
                 path2: str | None = None, raw2: str | None = None) -> None:
        self.kind = kind
        self.path = path
        self.raw = raw
        self.path2 = path2
        self.raw2 = raw2
        self.mutating = mutating
        self.idx = -1
        self.vetoed = False

    def as_list(self) -> list[Any]:
        out: list[Any] = [self.kind, self.raw]
        if self.raw2 is not None:
            out.append(self.raw2)
        return out


class Monitor:

    def __init__(self) -> None:
        self.installed = False
        self.active = False
        self.events: list[Event] = []
        self.allowed_root: str | None = None
        self.mut_count = 0
        self.kill_at: int | None = None
        #: exit at the first Python function entry AFTER the k-th mutating
        #: operation has executed (userspace-buffered data is lost, as with
        #: a real kill): the window between open(..., 'w') and the flush
        self.kill_after: int | None = None
        self.kinds: list[str] = []
        self.fail_at: int | None = None
        self.fail_errno = errno.ENOSPC
        self.on_event: Callable[[Event], None] | None = None
        self.vetoes = 0
        self.failed_injected = 0
        self._busy = False
        self.record = True

    # -- installation ---------------------------------------------------------

    def install(self) -> None:
        if self.installed:
            return
        self.installed = True
        sys.addaudithook(self._hook)
        for name in ('stat', 'lstat', 'access'):
            self._wrap_os(name)

    def _wrap_os(self, name: str) -> None:
        orig = getattr(os, name)
        mon = self

        def wrapper(path: Any, *a: Any, **kw: Any) -> Any:
            if mon.active and not mon._busy and isinstance(
                    path, (str, bytes, os.PathLike)):
                mon._record('stat', path, None, False)
            return orig(path, *a, **kw)
        wrapper.__name__ = name
        setattr(os, name, wrapper)

    # -- the hook -------------------------------------------------------------

    def _hook(self, event: str, args: tuple[Any, ...]) -> None:
        if not self.active or self._busy:
            return
        if event == 'open':
            path, mode, flags = args[0], args[1], args[2]
            if not isinstance(path, (str, bytes, os.PathLike)):
                return
            writing = bool(flags & (os.O_WRONLY | os.O_RDWR | os.O_CREAT |
                                    os.O_TRUNC | os.O_APPEND)) \
                if isinstance(flags, int) else \
                (mode is not None and any(c in str(mode) for c in 'wax+'))
            self._record('open:w' if writing else 'open:r', path, None,
                         writing)
        elif event in ('os.rename', 'os.link', 'os.symlink', 'os.replace'):
            self._record(event, args[0], args[1], True)
        elif event in ('os.mkdir', 'os.rmdir', 'os.remove', 'os.utime',
                       'os.chmod', 'os.truncate', 'os.chown',
                       'shutil.rmtree'):
            self._record(event, args[0], None, True)
        elif event in ('os.listdir', 'os.scandir', 'os.walk', 'os.chdir'):
            p = args[0] if args and args[0] is not None else '.'
            self._record(event, p, None, False)
        elif event == 'shutil.move':
            self._record(event, args[0], args[1], True)

    def _resolve(self, p: Any) -> tuple[str, str]:
        if isinstance(p, int):
            return '<fd %d>' % p, '<fd %d>' % p
        raw = os.fsdecode(p) if not isinstance(p, str) else p
        try:
            real = os.path.realpath(raw)
        except (OSError, ValueError):
            real = os.path.abspath(raw) if '\x00' not in raw else raw
        return real, raw

    def _record(self, kind: str, p: Any, p2: Any, mutating: bool) -> None:
        self._busy = True
        try:
            path, raw = self._resolve(p)
            path2 = raw2 = None
            if p2 is not None:
                path2, raw2 = self._resolve(p2)
            ev = Event(kind, path, raw, mutating, path2, raw2)
        finally:
            self._busy = False
        if mutating:
            ev.idx = self.mut_count
            self.mut_count += 1
            if self.kill_at is not None and ev.idx >= self.kill_at:
                os._exit(77)
            self.kinds.append(kind)
        if self.record:
            self.events.append(ev)
        if self.on_event is not None:
            self.on_event(ev)
        if mutating:
            root = self.allowed_root
            if root is not None:
                for q in (ev.path, ev.path2):
                    if q is not None and not _inside(q, root) \
                            and not q.startswith('<fd'):
                        ev.vetoed = True
                        self.vetoes += 1
                        raise PermissionError(
                            errno.EPERM, 'vf.fsmon veto: outside ' + root, q)
            if self.fail_at is not None and ev.idx == self.fail_at \
                    and kind in FAILABLE:
                self.failed_injected += 1
                raise OSError(self.fail_errno, os.strerror(self.fail_errno),
                              ev.raw)
            if self.kill_after is not None and ev.idx == self.kill_after:
                self._arm_exit()

    def _arm_exit(self) -> None:
        mon = sys.monitoring
        tool = 5
        try:
            mon.use_tool_id(tool, 'vf-kill-after')
        except ValueError:
            pass
        state = {'n': 0}

        def cb(code: Any, offset: int) -> None:
            # the first PY_START is the next function the server calls after
            # the audited operation has returned
            if code.co_filename != __file__:
                os._exit(77)
        mon.register_callback(tool, mon.events.PY_START, cb)
        mon.set_events(tool, mon.events.PY_START)

    # -- control --------------------------------------------------------------

    def start(self, allowed_root: str | None = None) -> None:
        self.events = []
        self.allowed_root = os.path.realpath(allowed_root) \
            if allowed_root else None
        self.active = True

    def stop(self) -> list[Event]:
        self.active = False
        ev, self.events = self.events, []
        return ev


def _inside(path: str, root: str) -> bool:
    return path == root or path.startswith(root.rstrip('/') + '/')


def inside(path: str, root: str, strict: bool = False) -> bool:
    if strict:
        return path.startswith(root.rstrip('/') + '/')
    return _inside(path, root)


MON = Monitor()


def snapshot(root: str) -> dict[str, Any]:
    """Recursive listing + content hash of a tree (for before/after)."""
    import hashlib
    out: dict[str, Any] = {}
    if os.path.isfile(root):
        with open(root, 'rb') as f:
            return {'.': hashlib.sha1(f.read()).hexdigest()}
    for dirpath, dirs, files in os.walk(root):
        dirs.sort()
        rel = os.path.relpath(dirpath, root)
        out[rel + '/'] = 'dir'
        for fn in sorted(files):
            p = os.path.join(dirpath, fn)
            try:
                with open(p, 'rb') as f:
                    out[os.path.join(rel, fn)] = hashlib.sha1(
                        f.read()).hexdigest()
            except OSError as exc:
                out[os.path.join(rel, fn)] = 'unreadable:%s' % exc.errno
    return out
