"""C20 helper: forked processes hammering one FileLock with write locks.

Mutual exclusion is witnessed without clocks: inside the critical section the
holder creates a marker file with O_CREAT|O_EXCL and removes it before
leaving.  If the creation fails with FileExistsError two writers were inside
at once.  Some iterations raise out of the body; when every child is gone the
lock file must be absent.  Real sleeping is used (the retry delays of FileLock
are real ``asyncio.sleep`` calls here) but no duration decides anything: a
child that runs out of retries reports 'timeout' (documented outcome), a child
that does not exit in time makes the case *aborted*.
"""

from __future__ import annotations

import asyncio
import json
import os
import shutil
import signal
import tempfile
import time
from typing import Any

from .c20_inloop import BodyError

WAIT_TIMEOUT = 60.0


async def _child(path: str, marker: str, iters: int, raise_every: int,
                 who: int, out: dict[str, Any]) -> None:
    from pymap.concurrent import FileLock
    delay = (0.0002, 0.0005) + (0.001,) * 2000
    lock = FileLock(path, write_retry_delay=delay, read_retry_delay=delay)
    for i in range(iters):
        if os.path.exists(path):
            out['found_busy'] += 1      # evidence of real contention
        try:
            async with lock.write_lock():
                out['entered'] += 1
                try:
                    fd = os.open(marker, os.O_CREAT | os.O_EXCL | os.O_WRONLY)
                except FileExistsError:
                    out['overlap'] += 1
                    out['overlap_at'] = i
                    return
                os.close(fd)
                if not os.path.exists(path):
                    out['lockfile_missing_inside'] += 1
                for _ in range(1 + (i + who) % 3):
                    await asyncio.sleep(0)
                    os.sched_yield()
                if (i + who) % 4 == 0:
                    # hold across a real (tiny) sleep so that the other
                    # processes attempt and retry while the file exists
                    await asyncio.sleep(0.0003)
                try:
                    os.unlink(marker)
                except FileNotFoundError:
                    out['marker_stolen'] += 1
                if raise_every and i % raise_every == who % raise_every:
                    out['raised'] += 1
                    raise BodyError()
        except BodyError:
            pass
        except TimeoutError:
            out['timeout'] += 1
            if out['timeout'] >= 2:
                return      # give up; the parent looks at the lock file
        if (i + who) % 2:
            await asyncio.sleep(0.0001)


def run_procs(nproc: int, iters: int, raise_every: int) -> dict[str, Any]:
    base = tempfile.mkdtemp(prefix='vf-c20-')
    path = os.path.join(base, 'lock')
    marker = os.path.join(base, 'marker')
    res: dict[str, Any] = {'aborted': None, 'children': [], 'viol': None}
    pids: dict[int, int] = {}
    pipes: dict[int, int] = {}
    gate_r, gate_w = os.pipe()
    try:
        for who in range(nproc):
            r, w = os.pipe()
            pid = os.fork()
            if pid == 0:
                code = 0
                try:
                    os.close(r)
                    os.close(gate_w)
                    for fd in pipes.values():
                        os.close(fd)
                    os.read(gate_r, 1)      # start together
                    out = {'entered': 0, 'overlap': 0, 'timeout': 0,
                           'raised': 0, 'marker_stolen': 0, 'found_busy': 0,
                           'lockfile_missing_inside': 0, 'error': None}
                    try:
                        loop = asyncio.new_event_loop()
                        loop.run_until_complete(_child(
                            path, marker, iters, raise_every, who, out))
                        loop.close()
                    except BaseException as exc:
                        out['error'] = repr(exc)
                    os.write(w, json.dumps(out).encode())
                    os.close(w)
                except BaseException:
                    code = 3
                finally:
                    os._exit(code)
            os.close(w)
            pids[pid] = who
            pipes[who] = r
        os.close(gate_r)
        os.close(gate_w)
        gate_r = gate_w = -1
        deadline = time.monotonic() + WAIT_TIMEOUT
        left = dict(pids)
        while left and time.monotonic() < deadline:
            for pid in list(left):
                done, _st = os.waitpid(pid, os.WNOHANG)
                if done:
                    del left[pid]
            if left:
                time.sleep(0.002)
        if left:
            res['aborted'] = 'child-timeout'
            for pid in left:
                try:
                    os.kill(pid, signal.SIGKILL)
                except ProcessLookupError:
                    pass
                try:
                    os.waitpid(pid, 0)
                except ChildProcessError:
                    pass
        for who, r in pipes.items():
            data = b''
            try:
                while True:
                    chunk = os.read(r, 65536)
                    if not chunk:
                        break
                    data += chunk
            finally:
                os.close(r)
            try:
                res['children'].append(json.loads(data))
            except ValueError:
                res['children'].append(None)
                if res['aborted'] is None:
                    res['aborted'] = 'child-no-report'
        kids = [c for c in res['children'] if c]
        if res['aborted'] is None:
            if any(c['error'] for c in kids):
                res['viol'] = {
                    'mech': 'fl-raised',
                    'detail': 'lock operation raised in a child: %r' % (
                        [c['error'] for c in kids if c['error']][:2],)}
            elif any(c['overlap'] or c['marker_stolen'] for c in kids):
                res['viol'] = {
                    'mech': 'fl-writer-overlaps-writer',
                    'detail': 'O_EXCL marker: a process inside write_lock() '
                    'found another writer inside (%r)' % (
                        [(i, c['overlap'], c['marker_stolen'])
                         for i, c in enumerate(kids)],)}
            elif any(c['lockfile_missing_inside'] for c in kids):
                res['viol'] = {
                    'mech': 'fl-lock-file-removed-under-holder',
                    'detail': 'a holder found its lock file gone'}
            elif os.path.exists(path):
                res['viol'] = {
                    'mech': 'fl-lock-not-released',
                    'detail': 'all %d processes have exited (bodies raised '
                    '%d times) but the lock file is still present' % (
                        nproc, sum(c['raised'] for c in kids))}
        return res
    finally:
        for fd in (gate_r, gate_w):
            if fd >= 0:
                os.close(fd)
        shutil.rmtree(base, ignore_errors=True)
