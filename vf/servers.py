"""M3: build real pymap backends in process (dict, maildir) and provision
users.  No repository code is modified; only public constructors are used."""

from __future__ import annotations

import os
import shutil
import tempfile
from argparse import Namespace
from dataclasses import dataclass, field
from typing import Any

from pysasl.hashing import BuiltinHash

from pymap.concurrent import Subsystem
from pymap.imap import IMAPServer
from pymap.sieve.manage import ManageSieveServer
from pymap.user import UserMetadata

HASH = BuiltinHash(hash_name='sha1', salt_len=0, rounds=1)


class FakeArgs(Namespace):
    """Same shape as the repository's own test fixture."""

    debug = False
    demo_data = None
    demo_user = 'demouser'
    demo_password = 'demopass'

    def __init__(self, **kwargs: Any) -> None:
        super().__init__()
        self.__dict__.update(kwargs)

    def __getattr__(self, key: str) -> None:
        return None


@dataclass
class Env:
    kind: str                      # dict | maildir
    backend: Any
    config: Any
    login: Any
    imap: IMAPServer
    sieve: ManageSieveServer
    users: dict[str, str] = field(default_factory=dict)
    root: str | None = None        # sacrificial tree (maildir)
    base_dir: str | None = None
    layout: str | None = None

    def cleanup(self) -> None:
        if self.root and os.path.isdir(self.root):
            shutil.rmtree(self.root, ignore_errors=True)
        self.root = None


async def make_dict(users: dict[str, str] | None = None, *,
                    admins: tuple[str, ...] = (),
                    demo: bool = False, **overrides: Any) -> Env:
    from pymap.backend.dict import DictBackend
    args = FakeArgs(demo_data=('pymap.backend.dict' if demo else None),
                    demo_user='testuser', demo_password='testpass')
    kw: dict[str, Any] = dict(hash_context=HASH, invalid_user_sleep=0.0,
                              cpu_subsystem=Subsystem.for_asyncio())
    kw.update(overrides)
    backend, config = await DictBackend.init(args, **kw)
    login = backend.login
    env = Env('dict', backend, config, login,
              IMAPServer(login, config), ManageSieveServer(login, config))
    env.users['testuser'] = 'testpass'
    for name, pw in (users or {}).items():
        hashed = config.hash_context.hash(config.password_prep(pw))
        roles = frozenset({'admin'}) if name in admins else frozenset()
        login.users_dict[name] = UserMetadata(
            config, name, password=hashed, roles=roles, entity_tag=1)
        env.users[name] = pw
    return env


def scratch_root(where: str | None = None) -> str:
    """A deep sacrificial directory outside /repo and /verif."""
    base = where or os.environ.get('VF_SCRATCH') or tempfile.gettempdir()
    root = tempfile.mkdtemp(prefix='vf-', dir=base)
    return root


async def make_maildir(users: dict[str, str] | None = None, *,
                       admins: tuple[str, ...] = (), layout: str = '++',
                       where: str | None = None, root: str | None = None,
                       subsystem: Subsystem | None = None,
                       provision: bool = True,
                       **overrides: Any) -> Env:
    from pymap.backend.maildir import MaildirBackend, Config, Login, Identity
    own_root = root is None
    if root is None:
        root = scratch_root(where)
    base_dir = os.path.join(root, 's', 'a', 'b', 'base')
    os.makedirs(base_dir, exist_ok=True)
    args = FakeArgs()
    kw: dict[str, Any] = dict(
        host=None, port=0, base_dir=base_dir, layout=layout, colon=None,
        subsystem=subsystem or Subsystem.for_asyncio(),
        hash_context=HASH, invalid_user_sleep=0.0,
        cpu_subsystem=Subsystem.for_asyncio())
    kw.update(overrides)
    config = Config(args, **kw)
    login = Login(config)
    backend = MaildirBackend(login, config)
    env = Env('maildir', backend, config, login,
              IMAPServer(login, config), ManageSieveServer(login, config),
              root=root if own_root else None, base_dir=base_dir,
              layout=layout)
    if root and not own_root:
        env.root = None
    for name, pw in (users or {}).items():
        env.users[name] = pw
        if provision:
            hashed = config.hash_context.hash(config.password_prep(pw))
            ident = Identity(config, login.tokens, name, None, {'admin'})
            roles = frozenset({'admin'}) if name in admins else frozenset()
            await ident.set(UserMetadata(config, name, password=hashed,
                                         roles=roles))
    return env


async def make_env(kind: str, users: dict[str, str] | None = None,
                   **kw: Any) -> Env:
    if kind == 'dict':
        return await make_dict(users, **kw)
    if kind == 'maildir-colon':
        # a deployment with another info separator in file names (--colon),
        # as needed on file systems that cannot have ':' in names
        if users is None:
            users = {'testuser': 'testpass'}
        return await make_maildir(users, layout='++', colon='!', **kw)
    if kind.startswith('maildir'):
        layout = 'fs' if kind.endswith('fs') else '++'
        if users is None:
            users = {'testuser': 'testpass'}
        return await make_maildir(users, layout=layout, **kw)
    raise ValueError(kind)
