"""Independent evaluation of IMAP sequence sets (RFC 3501 section 9,
``sequence-set``): '*' is the largest number in use, ranges are unordered
pairs, duplicates collapse."""

from __future__ import annotations


def parse(s: bytes) -> list[tuple[int | None, int | None]]:
    """[(a, b)] with None standing for '*'; raises ValueError."""
    out: list[tuple[int | None, int | None]] = []
    for part in s.split(b','):
        if not part:
            raise ValueError(s)
        ends = part.split(b':')
        if len(ends) > 2:
            raise ValueError(s)
        vals: list[int | None] = []
        for e in ends:
            if e == b'*':
                vals.append(None)
            elif e.isdigit() and int(e) > 0:
                vals.append(int(e))
            else:
                raise ValueError(s)
        if len(vals) == 1:
            out.append((vals[0], vals[0]))
        else:
            out.append((vals[0], vals[1]))
    return out


def contains(ranges: list[tuple[int | None, int | None]], n: int,
             maxn: int) -> bool:
    for a, b in ranges:
        x = maxn if a is None else a
        y = maxn if b is None else b
        if x > y:
            x, y = y, x
        if x <= n <= y:
            return True
    return False


def select_seqs(s: bytes, count: int) -> list[int]:
    """Sequence numbers 1..count addressed by the set."""
    if count == 0:
        return []
    r = parse(s)
    return [n for n in range(1, count + 1) if contains(r, n, count)]


def select_uids(s: bytes, uids: list[int]) -> list[int]:
    """UIDs of ``uids`` (ascending) addressed by the UID set; '*' is the
    highest UID present."""
    if not uids:
        return []
    r = parse(s)
    maxu = max(uids)
    return [u for u in uids if contains(r, u, maxu)]
