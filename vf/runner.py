"""M12: farm, verdicts, known findings, evidence.

A check module exposes a ``CHECK`` object (subclass of ``Check``).  The runner

1. replays the committed known-finding triggers of the property
   (``known`` must still reproduce -> ``KNOWN-FINDING:`` line, ``fixed`` must
   hold -> otherwise an ordinary VIOLATION);
2. explores: case specs are generated in the parent from ``VERIF_SEED`` and
   farmed out to forked workers; every case runs the real code under the
   check's oracle and reports violations, counters and a distinctness
   signature;
3. classifies every violation *by mechanism* (a structural predicate computed
   by the oracle); mechanisms listed as ``known`` are suppressed and counted,
   everything else is a VIOLATION with a replay file;
4. writes ``evidence/<id>.json`` from what was actually observed;
5. exits 0 (held on what was explored), 1 (violation), 2 (inconclusive: the
   deciding monitor was not reached often enough / a worker died).
"""

from __future__ import annotations

import hashlib
import json
import os
import signal
import sys
import tempfile
import time
import traceback
from typing import Any, Iterable, Iterator

from . import ROOT

KNOWN_FILE = os.path.join(ROOT, 'known_findings.json')
EVID_DIR = os.path.join(ROOT, 'evidence')
REPLAY_DIR = os.path.join(ROOT, 'replays')
NCPU = max(1, min(16, os.cpu_count() or 1))


class Check:
    pid = 'C00'
    level = 'exploration'
    title = ''
    rule = ''
    assumptions: list[str] = []
    #: counters that must reach these floors, else the run is inconclusive
    floors: dict[str, int] = {}
    #: soft wall-clock caps per tier (workers stop *starting* cases after it)
    time_cap = {'quick': 60.0, 'thorough': 600.0}
    #: max fraction of aborted traces before the run is inconclusive
    max_aborted = 0.2
    workers = NCPU

    def cases(self, tier: str, seed: int) -> Iterable[dict[str, Any]]:
        raise NotImplementedError

    def run_case(self, spec: dict[str, Any]) -> dict[str, Any]:
        """Return {'violations': [{'mech','detail','witness'}], 'counters':
        {...}, 'sig': str|None, 'nontrivial': bool, 'sample': any|None,
        'aborted': str|None}"""
        raise NotImplementedError

    def setup_worker(self) -> None:
        pass

    def extra_evidence(self, agg: dict[str, Any]) -> dict[str, Any]:
        return {}

    def on_worker_death(self, rec: dict[str, Any]) -> dict[str, Any] | None:
        """A worker process died while running ``rec['spec']`` (exit status
        ``rec['status']``, negative = signal).  Return a violation dict if
        that death is itself a decisive observation (e.g. the kernel's
        CPU-time timer), else None (inconclusive)."""
        return None


def load_known(pid: str) -> list[dict[str, Any]]:
    try:
        with open(KNOWN_FILE) as f:
            data = json.load(f)
    except FileNotFoundError:
        return []
    return [e for e in data.get('findings', []) if e.get('property') == pid]


def _jsonable(x: Any) -> Any:
    if isinstance(x, bytes):
        try:
            return x.decode('ascii')
        except UnicodeDecodeError:
            return {'hex': x.hex()}
    if isinstance(x, (bytearray, memoryview)):
        return _jsonable(bytes(x))
    if isinstance(x, dict):
        return {str(_k(k)): _jsonable(v) for k, v in x.items()}
    if isinstance(x, (list, tuple, set, frozenset)):
        return [_jsonable(v) for v in x]
    if isinstance(x, (str, int, float, bool)) or x is None:
        return x
    return repr(x)


def _k(k: Any) -> Any:
    if isinstance(k, bytes):
        return k.decode('latin-1')
    return k


def jdump(x: Any) -> str:
    return json.dumps(_jsonable(x), sort_keys=True)


def _safe_run(check: Check, spec: dict[str, Any]) -> dict[str, Any]:
    try:
        res = check.run_case(spec)
    except BaseException as exc:  # harness bug or watchdog: inconclusive
        if isinstance(exc, (KeyboardInterrupt, SystemExit)):
            raise
        res = {'violations': [], 'counters': {}, 'sig': None,
               'nontrivial': False, 'sample': None,
               'harness_error': ''.join(traceback.format_exception(
                   type(exc), exc, exc.__traceback__))[-3000:]}
    res.setdefault('violations', [])
    res.setdefault('counters', {})
    res.setdefault('sig', None)
    res.setdefault('nontrivial', res.get('sig') is not None)
    res.setdefault('sample', None)
    res.setdefault('aborted', None)
    return res


def _worker(check: Check, specs: list[tuple[int, dict[str, Any]]],
            path: str, deadline: float, keep_samples: int) -> None:
    check.setup_worker()
    with open(path, 'w') as out:
        n_samples = 0
        for idx, spec in specs:
            if time.monotonic() > deadline:
                out.write(json.dumps({'skipped': idx}) + '\n')
                continue
            out.write(json.dumps({'start': idx}) + '\n')
            out.flush()
            res = _safe_run(check, spec)
            if res.get('sample') is not None:
                if n_samples < keep_samples:
                    n_samples += 1
                else:
                    res['sample'] = None
            res['idx'] = idx
            res['spec'] = spec
            out.write(jdump(res) + '\n')
            out.flush()


def farm(check: Check, specs: list[dict[str, Any]], cap: float,
         hard_cap: float) -> Iterator[dict[str, Any]]:
    """Run specs on forked workers; yields result dicts (and records with
    'hung'/'skipped' keys)."""
    nw = max(1, min(check.workers, len(specs)))
    tmp = tempfile.mkdtemp(prefix='vf-farm-')
    indexed = list(enumerate(specs))
    shards = [indexed[i::nw] for i in range(nw)]
    deadline = time.monotonic() + cap
    pids: dict[int, int] = {}
    paths = [os.path.join(tmp, 'shard-%d.jsonl' % i) for i in range(nw)]
    try:
        for i in range(nw):
            sys.stdout.flush()
            sys.stderr.flush()
            pid = os.fork()
            if pid == 0:
                code = 0
                try:
                    _worker(check, shards[i], paths[i], deadline, 4)
                except BaseException:
                    traceback.print_exc()
                    code = 3
                finally:
                    sys.stdout.flush()
                    sys.stderr.flush()
                    os._exit(code)
            pids[pid] = i
        hard_deadline = time.monotonic() + hard_cap
        status: dict[int, int] = {}
        while pids:
            done, st = os.waitpid(-1, os.WNOHANG)
            if done:
                if done in pids:
                    status[pids.pop(done)] = st
                continue
            if time.monotonic() > hard_deadline:
                for pid in list(pids):
                    try:
                        os.kill(pid, signal.SIGKILL)
                    except ProcessLookupError:
                        pass
                for pid in list(pids):
                    try:
                        os.waitpid(pid, 0)
                    except ChildProcessError:
                        pass
                    status[pids.pop(pid)] = -9
                break
            time.sleep(0.02)
        for i, path in enumerate(paths):
            started: int | None = None
            try:
                with open(path) as f:
                    for line in f:
                        try:
                            rec = json.loads(line)
                        except json.JSONDecodeError:
                            continue
                        if 'start' in rec:
                            started = rec['start']
                            continue
                        if 'skipped' in rec:
                            yield rec
                            continue
                        started = None
                        yield rec
            except FileNotFoundError:
                pass
            st = status.get(i, 0)
            if st not in (0, -9):
                try:
                    st = os.waitstatus_to_exitcode(st)
                except ValueError:
                    pass
            if st != 0:
                yield {'hung': started, 'status': st, 'shard': i,
                       'spec': specs[started] if started is not None
                       else None}
    finally:
        for path in paths:
            try:
                os.unlink(path)
            except FileNotFoundError:
                pass
        try:
            os.rmdir(tmp)
        except OSError:
            pass


def _write_replay(pid: str, spec: dict[str, Any], viol: dict[str, Any]) -> str:
    os.makedirs(REPLAY_DIR, exist_ok=True)
    blob = jdump({'spec': spec, 'mech': viol.get('mech')})
    h = hashlib.sha1(blob.encode()).hexdigest()[:12]
    path = os.path.join(REPLAY_DIR, '%s-%s.json' % (pid, h))
    with open(path, 'w') as f:
        f.write(json.dumps(_jsonable({
            'property': pid, 'spec': spec, 'violation': viol}), indent=1))
    return path


def main(check: Check, argv: list[str]) -> int:
    import argparse
    ap = argparse.ArgumentParser(prog='vf ' + check.pid)
    ap.add_argument('--tier', default=os.environ.get('VERIF_TIER', 'quick'),
                    choices=['quick', 'thorough'])
    ap.add_argument('--seed', type=int,
                    default=int(os.environ.get('VERIF_SEED', '0') or 0))
    ap.add_argument('--replay')
    ap.add_argument('--limit', type=int, default=0)
    ap.add_argument('--serial', action='store_true')
    ap.add_argument('--no-evidence', action='store_true')
    args = ap.parse_args(argv)
    pid = check.pid

    if args.replay:
        check.setup_worker()
        with open(args.replay) as f:
            rep = json.load(f)
        res = _safe_run(check, rep['spec'])
        print(json.dumps(_jsonable(res), indent=1)[:int(os.environ.get('VF_REPLAY_CHARS', '20000'))])
        return 1 if res['violations'] else 0

    t0 = time.monotonic()
    known = load_known(pid)
    known_mechs = {e['mechanism'] for e in known if e['status'] == 'known'}
    violations: list[tuple[dict[str, Any], dict[str, Any]]] = []
    known_lines: list[str] = []
    trigger_report: list[dict[str, Any]] = []
    check.setup_worker()

    # 1+2: triggers (on forked workers: a trigger that hangs or kills its
    # process is then a result, not the end of the check)
    trig = [(e, e['trigger_spec']) for e in known
            if e.get('trigger_spec') is not None]
    trig_res: dict[int, dict[str, Any]] = {}
    if args.serial:
        for k, (_, spec) in enumerate(trig):
            trig_res[k] = _safe_run(check, spec)
    else:
        pending = list(range(len(trig)))
        for _ in range(4):
            if not pending:
                break
            batch = [trig[k][1] for k in pending]
            got: set[int] = set()
            for rec in farm(check, batch, 900.0, 1800.0):
                if 'hung' in rec:
                    if rec.get('hung') is None:
                        continue
                    v = check.on_worker_death(rec) if rec.get('spec') \
                        else None
                    trig_res[pending[rec['hung']]] = {
                        'violations': [v] if v is not None else [],
                        'harness_error': None if v is not None else
                        'trigger killed its worker (status %r)'
                        % rec.get('status')}
                    got.add(rec['hung'])
                elif 'skipped' in rec:
                    continue
                else:
                    trig_res[pending[rec['idx']]] = rec
                    got.add(rec['idx'])
            pending = [k for j, k in enumerate(pending) if j not in got]
        for k in pending:
            trig_res[k] = {'violations': [], 'harness_error':
                           'trigger was not run (worker lost)'}
    for k, (e, spec) in enumerate(trig):
        res = trig_res[k]
        mechs = {v['mech'] for v in res['violations']}
        trigger_report.append({'mechanism': e['mechanism'],
                               'status': e['status'],
                               'reproduced': e['mechanism'] in mechs,
                               'observed': sorted(mechs)})
        if res.get('harness_error'):
            print('INCONCLUSIVE property=%s reason=trigger-harness-error %s'
                  % (pid, e['mechanism']))
            print(res['harness_error'], file=sys.stderr)
            return 2
        if e['status'] == 'known':
            if e['mechanism'] in mechs:
                known_lines.append('KNOWN-FINDING: property=%s %s -- %s' % (
                    pid, e['mechanism'], e['what']))
            else:
                print('NOTE: known finding %s no longer reproduces from its '
                      'trigger' % e['mechanism'])
            for v in res['violations']:
                if v['mech'] not in known_mechs:
                    violations.append((spec, v))
        else:
            for v in res['violations']:
                if v['mech'] not in known_mechs:
                    violations.append((spec, v))

    # 3: explore
    specs = list(check.cases(args.tier, args.seed))
    if args.limit:
        specs = specs[:args.limit]
    cap = check.time_cap[args.tier]
    counters: dict[str, int] = {}
    sigs: set[str] = set()
    samples: list[Any] = []
    suppressed: dict[str, int] = {}
    evaluations = 0
    aborted = 0
    abort_reasons: dict[str, int] = {}
    skipped = 0
    hung: list[Any] = []
    harness_errors: list[str] = []
    if args.serial:
        results: Iterable[dict[str, Any]] = (
            dict(_safe_run(check, s), spec=s) for s in specs)
    else:
        results = farm(check, specs, cap, cap * 3 + 120)
    for rec in results:
        if 'hung' in rec:
            v = check.on_worker_death(rec) if rec.get('spec') else None
            if v is not None:
                evaluations += 1
                if v['mech'] in known_mechs:
                    suppressed[v['mech']] = suppressed.get(v['mech'], 0) + 1
                else:
                    violations.append((rec['spec'], v))
            else:
                hung.append(rec)
            continue
        if 'skipped' in rec:
            skipped += 1
            continue
        evaluations += 1
        if rec.get('harness_error'):
            harness_errors.append(rec['harness_error'])
            continue
        if rec.get('aborted'):
            aborted += 1
            abort_reasons[rec['aborted']] = \
                abort_reasons.get(rec['aborted'], 0) + 1
        for k, v in rec['counters'].items():
            if isinstance(v, (int, float)):
                counters[k] = counters.get(k, 0) + v
        if rec.get('sig') is not None and rec.get('nontrivial'):
            sigs.add(rec['sig'])
        if rec.get('sample') is not None and len(samples) < 6:
            samples.append(rec['sample'])
        for v in rec['violations']:
            if v['mech'] in known_mechs:
                suppressed[v['mech']] = suppressed.get(v['mech'], 0) + 1
            else:
                violations.append((rec['spec'], v))

    wall = time.monotonic() - t0
    for line in known_lines:
        print(line)

    # verdict
    inconclusive: list[str] = []
    if harness_errors:
        inconclusive.append('harness-error x%d' % len(harness_errors))
        print(harness_errors[0], file=sys.stderr)
    if hung:
        inconclusive.append('worker-died x%d' % len(hung))
    if evaluations and aborted / evaluations > check.max_aborted:
        inconclusive.append('aborted %d/%d %s' % (
            aborted, evaluations, abort_reasons))
    for k, floor in check.floors.items():
        if counters.get(k, 0) < floor:
            inconclusive.append('%s=%s<%d' % (k, counters.get(k, 0), floor))
    if evaluations == 0:
        inconclusive.append('no-evaluations')

    seen: set[str] = set()
    uniq: list[tuple[dict[str, Any], dict[str, Any]]] = []
    for spec, v in violations:
        key = v['mech']
        if key in seen:
            continue
        seen.add(key)
        uniq.append((spec, v))
    for spec, v in uniq:
        path = _write_replay(pid, spec, v)
        print('VIOLATION property=%s replay=%s' % (pid, path))
        print('  mechanism=%s detail=%s' % (v['mech'],
                                            str(v.get('detail'))[:600]))

    if not args.no_evidence:
        os.makedirs(EVID_DIR, exist_ok=True)
        cov: dict[str, Any] = {
            'evaluations': evaluations,
            'distinct_nontrivial': len(sigs),
            'rule': check.rule,
            'samples': samples or [{'note': 'no samples recorded'}],
            'counters': counters,
            'cases_generated': len(specs),
            'cases_skipped_time_cap': skipped,
            'aborted_traces': aborted,
            'abort_reasons': abort_reasons,
            'known_findings_suppressed': suppressed,
            'known_trigger_replays': trigger_report,
            'violations_by_mechanism': sorted(
                {v['mech'] for _, v in violations}),
            'inconclusive': inconclusive,
            'exhaustive': False,
        }
        cov.update(check.extra_evidence({'counters': counters}))
        ev = {
            'property_id': pid, 'tier': args.tier, 'seed': args.seed,
            'level': check.level, 'coverage': _jsonable(cov),
            'assumptions': check.assumptions, 'wall_s': round(wall, 2),
            'violations': len(violations),
        }
        tmp = os.path.join(EVID_DIR, '.%s.tmp' % pid)
        with open(tmp, 'w') as f:
            json.dump(ev, f, indent=1, sort_keys=True)
        os.replace(tmp, os.path.join(EVID_DIR, '%s.json' % pid))

    print('%s tier=%s seed=%d evaluations=%d distinct=%d violations=%d '
          'suppressed=%s aborted=%d skipped=%d wall=%.1fs' % (
              pid, args.tier, args.seed, evaluations, len(sigs),
              len(violations), suppressed, aborted, skipped, wall))
    print('  counters: ' + ' '.join(
        '%s=%s' % kv for kv in sorted(counters.items())))
    if violations:
        return 1
    if inconclusive:
        print('INCONCLUSIVE property=%s reason=%s' % (
            pid, '; '.join(inconclusive)))
        return 2
    return 0
