from vf.c20_try import sweep
# smaller search
import itertools
pats = [['R1'],['W1'],['R1','R1'],['R1','W1'],['W1','R1'],['W1','W1']]
seen=set()
for n in (2,3):
    for combo in itertools.combinations_with_replacement(range(6), n):
        tasks=[pats[i] for i in combo]
        r = sweep('asyncio', tasks, ['q'], None)
        for m in r['viol']:
            if m not in seen or True:
                seen.add(m)
        print(n, tasks, r['n'], len(r['sigs']), sorted(r['viol']))
