"""M10: deterministic step budget via sys.monitoring (Python 3.12+).

Counts JUMP and PY_START events (every loop iteration and every function
entry); when the count since the last ``reset()`` exceeds the budget a
``BudgetExceeded`` (a BaseException, so ``except Exception`` in the code under
test cannot swallow it) is raised inside the running code.  Load-independent:
wall-clock plays no role."""

from __future__ import annotations

import sys


class BudgetExceeded(BaseException):
    pass


class StepBudget:
    TOOL = 4

    def __init__(self, budget: int = 5_000_000) -> None:
        self.budget = budget
        self.count = 0
        self.max_seen = 0
        self.tripped = 0
        self.active = False

    def _cb(self, *args: object) -> None:
        self.count += 1
        if self.count > self.budget:
            self.tripped += 1
            self.count = 0
            raise BudgetExceeded(self.budget)

    def install(self) -> bool:
        mon = getattr(sys, 'monitoring', None)
        if mon is None:
            return False
        try:
            mon.use_tool_id(self.TOOL, 'vf-budget')
        except ValueError:
            pass
        ev = mon.events
        mon.register_callback(self.TOOL, ev.JUMP, self._cb)
        mon.register_callback(self.TOOL, ev.PY_START, self._cb)
        mon.set_events(self.TOOL, ev.JUMP | ev.PY_START)
        self.active = True
        return True

    def uninstall(self) -> None:
        mon = getattr(sys, 'monitoring', None)
        if mon is None or not self.active:
            return
        mon.set_events(self.TOOL, 0)
        mon.free_tool_id(self.TOOL)
        self.active = False

    def credit(self, steps: int) -> None:
        """Allow ``steps`` more (work that is proportional to output)."""
        self.count -= steps

    def reset(self) -> int:
        n = self.count
        if n > self.max_seen:
            self.max_seen = n
        self.count = 0
        return n
