"""C20 helper: controlled single-loop executions of lock programs.

A *program* is a list of tasks; a task is a list of acquisitions written as
short strings: kind ('R'|'W') + number of yields inside the critical section
(1..2) + optional 'b' (one yield before requesting the lock) + optional '!'
(the body raises after its yields).  Every task starts with one extra yield so
that the order of arrival is a schedule choice.

Every yield is an await on a director-owned future.  The director is the only
source of scheduling freedom: at each decision point it picks which paused
task's future fires next and whether the *next* external event is delivered
only when the loop is quiescent ('q') or after k more passes of the director
through the FIFO ready queue (k = 0, 1: "back-to-back" external events).  The
ready queue itself is never reordered.  A cancellation is one more external
event the director may deliver while the target sits at a given step.
"""

from __future__ import annotations

import asyncio
import os
from typing import Any

PREFIX = {'asyncio': 'rw', 'threading': 'trw', 'file': 'fl'}

FOLLOW_ORDERS = (('W', 'R', 'W'), ('R', 'W', 'W'), ('W', 'W', 'R'))
FILE_RETRIES = 400


class BodyError(Exception):
    pass


def parse_acq(s: str) -> tuple[str, int, int, bool]:
    kind = s[0]
    nin = int(s[1])
    return kind, nin, 1 if 'b' in s[2:] else 0, '!' in s[2:]


def task_steps(prog: list[str], ti: int = 0) -> list[tuple[int, str]]:
    """Flattened block points of a task: (acquisition index, phase)."""
    out: list[tuple[int, str]] = [(0, 'start')]
    for ai, s in enumerate(prog):
        _, nin, nb, _ = parse_acq(s)
        out.extend((ai, 'before') for _ in range(nb))
        out.append((ai, 'wait'))
        out.extend((ai, 'inside') for _ in range(nin))
    return out


class Chooser:
    """Follows ``prefix``; beyond it picks 0 (sweep) or at random."""

    def __init__(self, prefix: list[int], rng: Any = None) -> None:
        self.prefix = prefix
        self.rng = rng
        self.trail: list[tuple[int, int]] = []

    def choose(self, n: int) -> int:
        pos = len(self.trail)
        if pos < len(self.prefix):
            c = self.prefix[pos]
            if c >= n:
                c = n - 1
        elif self.rng is not None:
            c = self.rng.randrange(n)
        else:
            c = 0
        self.trail.append((c, n))
        return c


def next_prefix(trail: list[tuple[int, int]]) -> list[int] | None:
    i = len(trail) - 1
    while i >= 0:
        c, n = trail[i]
        if c + 1 < n:
            return [t[0] for t in trail[:i]] + [c + 1]
        i -= 1
    return None


class Run:
    """One execution of one program on one (fresh) lock object."""

    def __init__(self, loop: Any, lock: Any, impl: str,
                 tasks: list[list[str]], chooser: Chooser,
                 gaps: list[Any], cancel: dict[str, int] | None,
                 path: str | None = None) -> None:
        self.loop = loop
        self.lock = lock
        self.impl = impl
        self.pfx = PREFIX[impl]
        self.tasks = tasks
        self.chooser = chooser
        self.gaps = gaps
        self.cancel = cancel
        self.path = path
        self.check_readers = impl != 'file'
        self.log: list[tuple[Any, ...]] = []
        self.sched: list[Any] = []
        self.inside: dict[Any, str] = {}
        self.passed: dict[Any, list[Any]] = {}
        self.reqno: dict[Any, int] = {}
        self.state: dict[Any, str] = {}
        self.kind: dict[Any, str | None] = {}
        self.futs: dict[Any, asyncio.Future[None]] = {}
        self.step: dict[Any, int] = {}
        self.handles: dict[Any, asyncio.Task[None]] = {}
        self.viol: dict[str, Any] | None = None
        self.cancelled: dict[str, Any] | None = None
        self.phase = 'main'
        self.checked = 0
        self.timeouts = 0
        self.probed = False

    # -- harness task side ---------------------------------------------------

    async def pause(self, name: Any) -> None:
        fut = self.loop.create_future()
        self.futs[name] = fut
        self.state[name] = 'paused'
        try:
            await fut
        finally:
            if self.futs.get(name) is fut:
                del self.futs[name]
            self.state[name] = 'running'

    def _cm(self, kind: str) -> Any:
        return self.lock.read_lock() if kind == 'R' else \
            self.lock.write_lock()

    def _diag(self) -> dict[str, Any]:
        """Glass-box diagnostics: never decide a violation, only name it."""
        d: dict[str, Any] = {}
        counter = getattr(self.lock, '_counter', None)
        if isinstance(counter, int):
            readers_in = sum(1 for k in self.inside.values() if k == 'R')
            readers_q = sum(1 for n, s in self.state.items()
                            if s == 'waiting' and self.kind.get(n) == 'R')
            d = {'counter': counter, 'readers_inside': readers_in,
                 'readers_queued': readers_q,
                 'leak': counter > readers_in + readers_q}
        return d

    def _violate(self, base: str, detail: str) -> None:
        if self.viol is not None:
            return
        diag = self._diag()
        mech = '%s-%s' % (self.pfx, base)
        c = self.cancelled
        if base in ('reader-enters-while-writer-active',
                    'writer-enters-while-reader-active',
                    'writer-enters-onto-reader-that-passed-queued-reader',
                    'writer-overlaps-writer'):
            if c and diag.get('leak') and c['kind'] == 'R' and \
                    c['state'] == 'waiting':
                mech = '%s-counter-leak-after-cancelled-reader' % self.pfx
            elif c and self.phase == 'followup':
                mech = '%s-exclusion-lost-after-cancel' % self.pfx
        self.viol = {'mech': mech, 'detail': detail, 'phase': self.phase,
                     'diag': diag, 'at_event': len(self.log)}

    def enter(self, name: Any, kind: str) -> None:
        self.checked += 1
        writers = [n for n, k in self.inside.items() if k == 'W']
        readers = [n for n, k in self.inside.items() if k == 'R']
        self.inside[name] = kind
        self.log.append(('enter', name, kind))
        if kind == 'R':
            # readers that asked earlier and are still queued (naming only)
            mine = self.reqno.get(name, 0)
            self.passed[name] = [n for n, s in self.state.items()
                                 if s == 'waiting' and n != name and
                                 self.kind.get(n) == 'R' and
                                 self.reqno.get(n, 0) < mine]
        if kind == 'W' and writers:
            self._violate('writer-overlaps-writer',
                          'writer %r entered while writer %r is inside'
                          % (name, writers[0]))
        elif kind == 'W' and readers and self.check_readers:
            by = [r for r in readers if self.passed.get(r)]
            self._violate('writer-enters-onto-reader-that-passed-queued-'
                          'reader' if by else
                          'writer-enters-while-reader-active',
                          'writer %r entered while reader(s) %r inside'
                          % (name, readers))
        elif kind == 'R' and writers and self.check_readers:
            self._violate('reader-enters-while-writer-active',
                          'reader %r entered while writer %r is inside'
                          % (name, writers[0]))

    def exit(self, name: Any, kind: str) -> None:
        self.inside.pop(name, None)
        self.passed.pop(name, None)
        self.log.append(('exit', name, kind))

    async def body(self, name: Any, prog: list[str]) -> None:
        idx = 0
        try:
            self.step[name] = idx
            idx += 1
            await self.pause(name)
            for s in prog:
                kind, nin, nb, raises = parse_acq(s)
                for _ in range(nb):
                    self.step[name] = idx
                    idx += 1
                    await self.pause(name)
                self.step[name] = idx
                idx += 1
                self.kind[name] = kind
                self.state[name] = 'waiting'
                self.reqno[name] = len(self.log)
                self.log.append(('req', name, kind))
                try:
                    async with self._cm(kind):
                        self.state[name] = 'running'
                        self.enter(name, kind)
                        try:
                            for _ in range(nin):
                                self.step[name] = idx
                                idx += 1
                                await self.pause(name)
                            if raises:
                                raise BodyError()
                        finally:
                            self.exit(name, kind)
                            # leaving may block too (the asyncio RW lock
                            # counted readers out under a lock): a
                            # cancellation can arrive here as well
                            self.state[name] = 'leaving'
                    self.state[name] = 'running'
                except BodyError:
                    self.state[name] = 'running'
                    self.log.append(('raised', name))
                self.kind[name] = None
            self.state[name] = 'done'
        except asyncio.CancelledError:
            self.state[name] = 'cancelled'
            self.log.append(('cancelled', name))
        except TimeoutError:
            # documented FileLock outcome when the retry delays run out
            self.state[name] = 'timeout'
            self.timeouts += 1
            self.log.append(('timeout', name))
        except Exception as exc:   # the lock itself raised
            self.state[name] = 'error'
            self.log.append(('error', name, type(exc).__name__))
            self._violate('raised-' + type(exc).__name__,
                          'task %r: lock operation raised %r' % (name, exc))

    # -- director side -------------------------------------------------------

    async def settle(self) -> None:
        await self.loop.quiescent()
        if self.impl == 'file':
            # one retry period after every external event: every sleeping
            # waiter re-tests the lock file in every intermediate state
            await self.loop.advance(1.0)
            await self.loop.quiescent()

    def _cancel_avail(self) -> bool:
        c = self.cancel
        if not c or self.cancelled is not None:
            return False
        t = c['task']
        return self.state.get(t) in ('paused', 'waiting', 'leaving') and \
            self.step.get(t) == c['step']

    def _options(self, names: list[Any]) -> list[tuple[Any, ...]]:
        paused = [n for n in names
                  if n in self.futs and not self.futs[n].done()]
        can = self._cancel_avail()
        gaps = self.gaps if (len(paused) >= 2 or (paused and can)) \
            else ['q']
        opts: list[tuple[Any, ...]] = [('go', n, g) for n in paused
                                       for g in gaps]
        if can:
            opts.append(('cancel',))
        return opts

    async def direct(self, names: list[Any]) -> None:
        chained = False
        drain = 0
        while True:
            if not chained:
                await self.settle()
            opts = self._options(names)
            if not opts:
                if chained:
                    chained = False
                    continue
                if self.impl == 'file' and drain < FILE_RETRIES + 2 and \
                        any(self.state.get(n) == 'waiting' for n in names):
                    drain += 1      # sleeping waiters: let them retry
                    continue
                return
            chained = False
            op = opts[self.chooser.choose(len(opts))]
            if op[0] == 'go':
                self.sched.append([op[1], op[2]])
                self.futs[op[1]].set_result(None)
                if op[2] != 'q':
                    for _ in range(op[2]):
                        await asyncio.sleep(0)
                    chained = True
            else:
                t = self.cancel['task']     # type: ignore[index]
                self.cancelled = {
                    'task': t, 'step': self.step.get(t),
                    'state': self.state.get(t), 'kind': self.kind.get(t),
                    'inside': t in self.inside,
                    'granted_pending': self.state.get(t) == 'paused' and
                    t in self.futs and self.futs[t].done()}
                self.sched.append(['cancel', t])
                self.log.append(('cancel', t, self.state.get(t)))
                self.handles[t].cancel()

    def spawn(self, name: Any, prog: list[str]) -> None:
        self.state[name] = 'new'
        self.kind[name] = None
        self.handles[name] = self.loop.create_task(self.body(name, prog))

    async def run_main(self) -> None:
        names = list(range(len(self.tasks)))
        for n in names:
            self.spawn(n, self.tasks[n])
        await self.direct(names)
        stuck = [n for n in names
                 if self.state[n] not in ('done', 'cancelled', 'timeout',
                                          'error')]
        if stuck and self.viol is None:
            base = 'stuck-after-cancel' if self.cancelled else 'deadlock'
            self._violate(base, 'loop quiescent, no task is waiting for a '
                          'yield to complete, nobody inside=%r, yet tasks '
                          '%r are still waiting for the lock'
                          % (sorted(map(str, self.inside)), stuck))

    async def run_followup(self) -> None:
        """W || R || W with fixed schedules, three arrival orders."""
        self.phase = 'followup'
        for rnd, order in enumerate(FOLLOW_ORDERS):
            names = ['f%d%s%d' % (rnd, k, i) for i, k in enumerate(order)]
            for n, k in zip(names, order):
                self.spawn(n, [k + '1'])
            await self.settle()
            for n in names:                      # arrivals, in order
                if n in self.futs and not self.futs[n].done():
                    self.sched.append([n, 'q'])
                    self.futs[n].set_result(None)
                    await self.settle()
                    if self.viol:
                        return
            drain = 0
            while True:                          # then let holders leave
                paused = [n for n in names
                          if n in self.futs and not self.futs[n].done()]
                if not paused:
                    if self.impl == 'file' and drain < FILE_RETRIES + 2 \
                            and any(self.state[n] == 'waiting'
                                    for n in names):
                        drain += 1
                        await self.settle()
                        continue
                    break
                self.sched.append([paused[0], 'q'])
                self.futs[paused[0]].set_result(None)
                await self.settle()
                if self.viol:
                    return
            stuck = [n for n in names if self.state[n] not in
                     ('done', 'timeout')]
            if stuck:
                self._violate('stuck-after-cancel',
                              'follow-up tasks %r never finished although '
                              'every holder released' % (stuck,))
                return

    def probe_free(self) -> None:
        """A fresh writer must acquire without suspending."""
        self.probed = True
        if self.impl == 'file' and self.path and os.path.exists(self.path):
            self._violate('lock-not-released',
                          'lock file still present after every task left')
            return
        lock = self.lock
        got = []

        async def p() -> None:
            async with lock.write_lock():
                got.append(1)
        co = p()
        try:
            co.send(None)
        except StopIteration:
            return
        except Exception as exc:
            self._violate('raised-' + type(exc).__name__,
                          'fresh writer: %r' % (exc,))
            return
        co.close()
        self._violate('lock-not-released',
                      'every task has left (or was cancelled) but a fresh '
                      'writer has to wait; diag=%r' % (self._diag(),))

    async def cleanup(self) -> None:
        left = [h for h in self.handles.values() if not h.done()]
        for h in left:
            h.cancel()
        if left:
            await asyncio.gather(*left, return_exceptions=True)
        if self.path:
            try:
                os.unlink(self.path)
            except OSError:
                pass

    async def execute(self) -> None:
        try:
            await self.run_main()
            if self.viol is None and self.cancelled is not None:
                await self.run_followup()
            if self.viol is None:
                self.probe_free()
        finally:
            await self.cleanup()


def make_lock(impl: str, path: str | None) -> Any:
    from pymap.concurrent import FileLock, ReadWriteLock
    if impl == 'asyncio':
        return ReadWriteLock.for_asyncio()
    if impl == 'file':
        delay = (1.0,) * FILE_RETRIES
        return FileLock(path, read_retry_delay=delay,    # type: ignore
                        write_retry_delay=delay)
    raise ValueError(impl)
