"""C20 helper: the same lock programs on real threads.

Each thread owns an asyncio loop and runs its task with
``loop.run_until_complete`` exactly as ``_ThreadingSubsystem._run_in_thread``
does.  Exclusion is witnessed by a table protected by the harness's own
``threading.Lock``, updated *inside* the critical section.  Real scheduling is
not controlled: this is stress sampling (10 us switch interval).  A join
timeout is inconclusive unless every live thread is provably parked on the
lock while nobody is inside.
"""

from __future__ import annotations

import asyncio
import sys
import threading
import time
from typing import Any

from .c20_inloop import BodyError, parse_acq

JOIN_TIMEOUT = 20.0


class ThreadRun:

    def __init__(self, tasks: list[list[str]], reps: int,
                 rounds: int = 10) -> None:
        from pymap.concurrent import ReadWriteLock
        self.tasks = tasks
        self.reps = reps
        self.rounds = rounds
        self.go = True
        self.locks = [ReadWriteLock.for_threading() for _ in range(reps)]
        self.n = len(tasks)
        self.wl = threading.Lock()
        self.inside: list[dict[int, str]] = [{} for _ in range(reps)]
        self.state = ['new'] * self.n
        self.rep_of = [0] * self.n
        self.kind: list[str | None] = [None] * self.n
        self.viol: dict[str, Any] | None = None
        self.checked = 0
        self.events = 0
        self.reps_done = 0
        self.contended = 0
        self.passed: dict[int, bool] = {}
        self.reqno = [0] * self.n
        self.req_while_busy = 0
        self.stop = False
        self.barrier = threading.Barrier(self.n, action=self._sample)
        self.log: list[tuple[Any, ...]] = []

    def _sample(self) -> None:
        # runs in one thread while all are parked at the barrier
        self.go = not self.stop

    def _violate(self, base: str, detail: str, rep: int) -> None:
        # caller holds self.wl
        if self.viol is None:
            self.viol = {'mech': 'trw-' + base, 'detail': detail,
                         'rep': rep, 'recent_events': list(self.log[-24:])}
            self.stop = True

    def enter(self, rep: int, tid: int, kind: str) -> None:
        with self.wl:
            ins = self.inside[rep]
            writers = [t for t, k in ins.items() if k == 'W']
            readers = [t for t, k in ins.items() if k == 'R']
            self.checked += 1
            if ins:
                self.contended += 1
            ins[tid] = kind
            self.state[tid] = 'inside'
            if kind == 'R':
                # readers that asked earlier and are still parked (naming)
                self.passed[tid] = any(
                    self.state[t] == 'waiting' and self.kind[t] == 'R' and
                    self.rep_of[t] == rep and self.reqno[t] < self.reqno[tid]
                    for t in range(self.n) if t != tid)
            self.log.append((rep, 'enter', tid, kind))
            if kind == 'W' and writers:
                self._violate('writer-overlaps-writer',
                              'writer %d entered while writer %d is inside'
                              % (tid, writers[0]), rep)
            elif kind == 'W' and readers:
                by = any(self.passed.get(r) for r in readers)
                self._violate('writer-enters-onto-reader-that-passed-'
                              'queued-reader' if by else
                              'writer-enters-while-reader-active',
                              'writer %d entered while readers %r inside'
                              % (tid, readers), rep)
            elif kind == 'R' and writers:
                self._violate('reader-enters-while-writer-active',
                              'reader %d entered while writer %d is inside'
                              % (tid, writers[0]), rep)

    def exit(self, rep: int, tid: int, kind: str) -> None:
        with self.wl:
            self.inside[rep].pop(tid, None)
            self.state[tid] = 'leaving'
            self.log.append((rep, 'exit', tid, kind))

    async def pause(self) -> None:
        # a yield in both senses: of this thread's loop, and of the GIL
        # (a real, tiny sleep: the effective switch interval of the
        # interpreter is far coarser than what was asked for)
        await asyncio.sleep(0)
        time.sleep(1e-5)

    async def body(self, rep: int, tid: int) -> None:
        lock = self.locks[rep]
        for s in self.tasks[tid] * self.rounds:
            if self.stop:
                return
            kind, nin, nb, raises = parse_acq(s)
            for _ in range(nb):
                await self.pause()
            with self.wl:
                self.kind[tid] = kind
                self.state[tid] = 'waiting'
                self.reqno[tid] = len(self.log)
                if self.inside[rep]:
                    self.req_while_busy += 1
                self.log.append((rep, 'req', tid, kind))
            cm = lock.read_lock() if kind == 'R' else lock.write_lock()
            try:
                async with cm:
                    self.enter(rep, tid, kind)
                    try:
                        for _ in range(nin):
                            await self.pause()
                        if raises:
                            raise BodyError()
                    finally:
                        self.exit(rep, tid, kind)
            except BodyError:
                pass
            with self.wl:
                self.state[tid] = 'between'

    async def probe(self, rep: int) -> None:
        async with self.locks[rep].write_lock():
            pass

    def thread_main(self, tid: int) -> None:
        loop = asyncio.new_event_loop()
        try:
            for rep in range(self.reps):
                self.rep_of[tid] = rep
                self.state[tid] = 'barrier'
                self.barrier.wait(JOIN_TIMEOUT)
                if not self.go:
                    break
                loop.run_until_complete(self.body(rep, tid))
                self.state[tid] = 'barrier'
                self.barrier.wait(JOIN_TIMEOUT)
                if tid == 0 and self.go:
                    # everybody has left: a fresh writer must get the lock
                    self.state[tid] = 'probe'
                    loop.run_until_complete(self.probe(rep))
                    self.reps_done += 1
            self.state[tid] = 'done'
        except threading.BrokenBarrierError:
            self.state[tid] = 'barrier-broken'
        except Exception as exc:
            with self.wl:
                self._violate('raised-' + type(exc).__name__,
                              'thread %d: lock operation raised %r'
                              % (tid, exc), self.rep_of[tid])
            self.state[tid] = 'error'
            self.barrier.abort()
        finally:
            loop.close()

    def run(self) -> str | None:
        """Returns an abort reason or None."""
        old = sys.getswitchinterval()
        sys.setswitchinterval(1e-5)
        threads = [threading.Thread(target=self.thread_main, args=(i,),
                                    daemon=True) for i in range(self.n)]
        try:
            for t in threads:
                t.start()
            deadline = time.monotonic() + JOIN_TIMEOUT + \
                0.002 * self.reps
            for t in threads:
                t.join(max(0.0, deadline - time.monotonic()))
            alive = [i for i, t in enumerate(threads) if t.is_alive()]
            if not alive:
                return None
            # somebody is stuck.  Provable only if every live thread is
            # parked on the lock (or is the probe) while nobody is inside
            # and nothing moves any more.
            with self.wl:
                before = len(self.log)
            self.barrier.abort()
            time.sleep(1.0)
            for t in threads:
                t.join(0.5)
            alive = [i for i, t in enumerate(threads) if t.is_alive()]
            with self.wl:
                moved = len(self.log) != before
                states = list(self.state)
                rep = max((self.rep_of[i] for i in alive), default=0)
                ins = dict(self.inside[rep])
                if self.viol is not None:
                    return None
                if alive and not moved and not ins and all(
                        states[i] in ('waiting', 'probe') for i in alive) \
                        and all(self.rep_of[i] == rep for i in alive):
                    probe = any(states[i] == 'probe' for i in alive)
                    self._violate(
                        'lock-not-released' if probe else 'deadlock',
                        'threads %r are parked on the lock of repetition %d '
                        '(states %r) while nobody is inside and every other '
                        'thread has finished the repetition'
                        % (alive, rep, states), rep)
                    self._unstick(rep)
                    return None
            return 'thread-join-timeout'
        finally:
            sys.setswitchinterval(old)

    def _unstick(self, rep: int) -> None:
        wl = getattr(self.locks[rep], '_write_lock', None)
        for _ in range(self.n + 1):
            try:
                if wl is not None and wl.locked():
                    wl.release()
                    time.sleep(0.05)
            except Exception:
                break


def _wait_for(pred: Any, limit: float) -> bool:
    t0 = time.monotonic()
    while time.monotonic() - t0 < limit:
        if pred():
            return True
        time.sleep(0.001)
    return False


def script_reader_passes_queued_reader() -> tuple[dict[str, Any] | None,
                                                  str | None, int]:
    """Scripted: a writer sits inside, reader 1 queues behind it, then
    reader 2 arrives.  Timeouts only ever decide 'not reproduced'."""
    run = ThreadRun([['W1'], ['R1'], ['R1']], 1, 1)
    lock = run.locks[0]
    w_in, w_go = threading.Event(), threading.Event()
    r2_in = threading.Event()

    async def writer() -> None:
        async with lock.write_lock():
            run.enter(0, 0, 'W')
            w_in.set()
            w_go.wait(10.0)
            run.exit(0, 0, 'W')

    async def reader(tid: int) -> None:
        with run.wl:
            run.kind[tid] = 'R'
            run.state[tid] = 'waiting'
            run.reqno[tid] = len(run.log)
            run.log.append((0, 'req', tid, 'R'))
        async with lock.read_lock():
            run.enter(0, tid, 'R')
            if tid == 2:
                r2_in.set()
            run.exit(0, tid, 'R')

    def main(coro: Any) -> None:
        loop = asyncio.new_event_loop()
        try:
            loop.run_until_complete(coro)
        finally:
            loop.close()

    ts = [threading.Thread(target=main, args=(c,), daemon=True)
          for c in (writer(), reader(1), reader(2))]
    ts[0].start()
    if not w_in.wait(10.0):
        return None, 'script-writer-never-entered', 0
    ts[1].start()
    # let reader 1 park on the lock
    _wait_for(lambda: run.state[1] == 'waiting', 2.0)
    _wait_for(lambda: getattr(lock, '_counter', 0) >= 1, 0.05)
    time.sleep(0.02)
    ts[2].start()
    r2_in.wait(0.5)          # fixed lock: reader 2 is (rightly) parked
    w_go.set()
    for t in ts:
        t.join(10.0)
    if any(t.is_alive() for t in ts):
        return run.viol, 'script-join-timeout', run.checked
    return run.viol, None, run.checked


def script_writer_joins_passing_reader(attempts: int = 12) \
        -> tuple[dict[str, Any] | None, str | None, int]:
    """Scripted, other face of the same defect: writer 0 sits inside, writer
    1 and then reader 2 park behind it; thread 0 leaves and at once asks for
    a read lock.  Which parked thread the OS wakes first is not ours to
    choose, hence a few attempts.  Timeouts only decide 'not reproduced'."""
    checked = 0
    for _ in range(attempts):
        run = ThreadRun([['W1', 'R1'], ['W1'], ['R1']], 1, 1)
        lock = run.locks[0]
        w_in, w_go = threading.Event(), threading.Event()
        w1_in, hold = threading.Event(), threading.Event()

        def req(tid: int, kind: str) -> None:
            with run.wl:
                run.kind[tid] = kind
                run.state[tid] = 'waiting'
                run.reqno[tid] = len(run.log)
                run.log.append((0, 'req', tid, kind))

        async def t0() -> None:
            async with lock.write_lock():
                run.enter(0, 0, 'W')
                w_in.set()
                w_go.wait(10.0)
                run.exit(0, 0, 'W')
            req(0, 'R')
            async with lock.read_lock():
                run.enter(0, 0, 'R')
                hold.wait(0.2)
                run.exit(0, 0, 'R')

        async def t1() -> None:
            req(1, 'W')
            async with lock.write_lock():
                run.enter(0, 1, 'W')
                w1_in.set()
                run.exit(0, 1, 'W')

        async def t2() -> None:
            req(2, 'R')
            async with lock.read_lock():
                run.enter(0, 2, 'R')
                run.exit(0, 2, 'R')

        def main(coro: Any) -> None:
            loop = asyncio.new_event_loop()
            try:
                loop.run_until_complete(coro)
            finally:
                loop.close()

        ts = [threading.Thread(target=main, args=(c,), daemon=True)
              for c in (t0(), t1(), t2())]
        ts[0].start()
        if not w_in.wait(10.0):
            return None, 'script-writer-never-entered', checked
        ts[1].start()
        _wait_for(lambda: run.state[1] == 'waiting', 2.0)
        time.sleep(0.02)
        ts[2].start()
        _wait_for(lambda: run.state[2] == 'waiting', 2.0)
        _wait_for(lambda: getattr(lock, '_counter', 0) >= 1, 0.05)
        time.sleep(0.02)
        w_go.set()
        w1_in.wait(0.1)
        hold.set()
        for t in ts:
            t.join(10.0)
        checked += run.checked
        if any(t.is_alive() for t in ts):
            return run.viol, 'script-join-timeout', checked
        if run.viol is not None:
            return run.viol, None, checked
    return None, None, checked
