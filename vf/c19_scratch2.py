import asyncio, signal, sys
from vf.servers import make_env
from vf.net import Conn
class SC(Conn):
    def _on_write(self, data):
        self.out += data; self._wake_all()
async def main():
    env = await make_env('dict')
    c = SC(1)
    c.start(env.sieve)
    await asyncio.sleep(0.05)
    c.feed(b'PUTSCRIPT "x" {0+}\r\n')
    await asyncio.sleep(0.05)
    print('server idle, feeding EOF', flush=True)
    c.feed_eof()
    await asyncio.sleep(0.05)
    print('loop still responsive; task done:', c.task_done)
def alarm(*a):
    print('ALARM: event loop blocked for 3 s of wall time -> server task spins'); sys.exit(0)
signal.signal(signal.SIGALRM, alarm); signal.alarm(3)
asyncio.run(main())
