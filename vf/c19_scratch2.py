import cProfile, pstats, time
from vf.checks.c19 import CHECK
from vf.runner import _safe_run
CHECK.setup_worker()
specs = list(CHECK.cases('quick', 0))[:120]
t=time.time()
pr = cProfile.Profile(); pr.enable()
for s in specs: _safe_run(CHECK, s)
pr.disable()
print('total %.2f' % (time.time()-t))
pstats.Stats(pr).sort_stats('cumulative').print_stats(28)
