"""M11: seeded generators for hostile inputs (names, command lines, message
bytes).  Everything is a pure function of the ``random.Random`` given."""

from __future__ import annotations

import base64
import random
import re
import string

_LIT_INTRO = re.compile(rb'\{(\d+)(\+?)\}(\r?\n)')


def modutf7_encode(name: str) -> bytes:
    """Independent modified UTF-7 encoder (RFC 3501 5.1.3)."""
    out = bytearray()
    buf: list[str] = []

    def flush() -> None:
        if buf:
            raw = ''.join(buf).encode('utf-16-be', 'surrogatepass')
            b64 = base64.b64encode(raw).rstrip(b'=').replace(b'/', b',')
            out.extend(b'&' + b64 + b'-')
            buf.clear()

    for ch in name:
        o = ord(ch)
        if 0x20 <= o <= 0x7e:
            flush()
            if ch == '&':
                out.extend(b'&-')
            else:
                out.append(o)
        else:
            buf.append(ch)
    flush()
    return bytes(out)


def modutf7_decode(data: bytes) -> str | None:
    """Independent decoder; None if the spelling is not valid mUTF-7."""
    out: list[str] = []
    i = 0
    n = len(data)
    while i < n:
        c = data[i]
        if c == 0x26:
            j = data.find(b'-', i)
            if j < 0:
                return None
            chunk = data[i + 1:j]
            if not chunk:
                out.append('&')
            else:
                b64 = chunk.replace(b',', b'/')
                b64 += b'=' * (-len(b64) % 4)
                try:
                    raw = base64.b64decode(b64, validate=True)
                except Exception:
                    return None
                if len(raw) % 2:
                    raw = raw[:-1]
                out.append(raw.decode('utf-16-be', 'surrogatepass'))
            i = j + 1
        elif 0x20 <= c <= 0x7e:
            out.append(chr(c))
            i += 1
        else:
            return None
    return ''.join(out)


TIDY_WORDS = ['Work', 'Sent', 'Trash', 'a', 'b', 'x1', 'Lists', 'Drafts',
              'z-9', 'two words', 'UPPER', 'mixedCase']
HOSTILE_CHARS = ['"', '\\', '*', '%', '&', '(', ')', '{', '}', ']', '[', ' ',
                 '\t', '~', '#', '+', '=', "'", ';', '\x7f', '\x01', '\x1b',
                 'é', 'ü', '中', '文', '\U0001f600',
                 '\U00010348', '‮', '﻿', '\u0000', '\r', '\n']


def tidy_name(rng: random.Random, depth: int | None = None) -> str:
    d = depth or rng.choice([1, 1, 1, 2, 2, 3])
    return '/'.join(rng.choice(TIDY_WORDS) + (
        str(rng.randint(0, 9)) if rng.random() < 0.5 else '')
        for _ in range(d))


def unicode_name(rng: random.Random, *, controls: bool = False,
                 max_len: int = 24) -> str:
    """A mailbox name from printable ASCII + assorted Unicode; with
    ``controls`` also CR/LF/NUL and other control characters."""
    pool = [c for c in HOSTILE_CHARS if controls or (
        c not in '\r\n\x00\x01\x1b\x7f\t')]
    n = rng.randint(1, max_len)
    out = []
    for _ in range(n):
        r = rng.random()
        if r < 0.5:
            out.append(rng.choice(string.ascii_letters + string.digits))
        elif r < 0.6:
            out.append('/')
        else:
            out.append(rng.choice(pool))
    return ''.join(out)


def path_name(rng: random.Random) -> str:
    """Names that try to walk the filesystem / degenerate hierarchies."""
    parts = ['.', '..', '', 'a', 'b', '...', '.hidden', 'cur', 'new', 'tmp',
             '~', 'etc', 'INBOX', 'inbox', '*', '%', 'x' * 40]
    n = rng.randint(1, 5)
    name = '/'.join(rng.choice(parts) for _ in range(n))
    r = rng.random()
    if r < 0.15:
        name = '/' + name
    elif r < 0.3:
        name = name + '/'
    elif r < 0.4:
        name = name.replace('/', '//')
    elif r < 0.5:
        name = name.replace('/', '.')
    elif r < 0.55:
        name = name + '\x00' + 'x'
    elif r < 0.6:
        name = '../' * rng.randint(1, 8) + name
    elif r < 0.65:
        name = name.replace('/', '\\')
    elif r < 0.75:
        # compatibility characters that a Unicode normalisation (NFKC/NFKD)
        # or a case folding turns into '.', '..', '/' or ASCII letters
        name = name.replace('..', rng.choice(
            ['\u2025', '\u2024\u2024', '\uff0e\uff0e', '\ufe52\ufe52']))
        name = name.replace('.', rng.choice(['\u2024', '\uff0e', '\ufe52']))
        if rng.random() < 0.3:
            name = name.replace('/', '\uff0f')
        if rng.random() < 0.3:
            name = name.replace('INBOX', '\uff29\uff2e\uff22\uff2f\uff38')
    return name


def wire_mailbox(name: str) -> bytes:
    """Client spelling of a mailbox name: mUTF-7, then a safe astring."""
    from .net import astring
    return astring(modutf7_encode(name))


# -- message bytes ------------------------------------------------------------

PUMP_PREFIXES = [b'Re', b'Fwd', b'Fw', b're:', b'', b'Re ', b'[',
                 b'=?utf-8?q?', b'"', b'<']
PUMP_UNITS = [b'[x]', b'[x] ', b'[]', b're: ', b'[a][b]', b' ', b'(', b'\t ',
              b'<a>', b'=?', b'a@b,', b'\\"', b'x ', b'fwd: [t] ']
PUMP_TAILS = [b'', b'x', b'!', b']', b':', b'\xff']
PUMP_HEADERS = [b'Subject', b'From', b'To', b'Content-Type',
                b'Content-Disposition', b'Date', b'Message-ID',
                b'In-Reply-To', b'References']


def deep_mime(depth: int, kind: str = 'multipart') -> bytes:
    """A message of ``depth`` really nested MIME levels (a boundary of its own
    per level): multipart in multipart, message/rfc822 in message/rfc822, or
    alternating."""
    body = b'Subject: leaf\r\n\r\nleaf text\r\n'
    for k in range(depth):
        rfc = kind == 'rfc822' or (kind == 'mixed' and k % 2)
        if rfc:
            body = b'Content-Type: message/rfc822\r\n\r\n' + body
        else:
            b = b'vf%d' % k
            body = b'Content-Type: multipart/mixed; boundary="' + b + \
                b'"\r\n\r\n--' + b + b'\r\n' + body + b'\r\n--' + b + \
                b'--\r\n'
    return b'X-VF-ID: deep\r\n' + body


def pump(rng: random.Random) -> bytes:
    """A 'pumped' string: a short unit repeated many times after a prefix
    that looks like the start of something the server's regexes recognise,
    with a tail that makes the overall match fail -- the input shape that
    exposes super-linear backtracking in regular expressions."""
    prefix = rng.choice([b'Re', b'Fwd', b'Fw', b're:', b'', b'Re ', b'[',
                         b'=?utf-8?q?', b'"', b'<'])
    unit = rng.choice([b'[x]', b'[x] ', b'[]', b're: ', b'[a][b]', b' ',
                       b'(', b'\t ', b'<a>', b'=?', b'a@b,', b'\\"', b'x ',
                       b'fwd: [t] '])
    tail = rng.choice([b'', b'x', b'!', b']', b':', b'\xff'])
    return prefix + unit * rng.choice([25, 40, 60, 200]) + tail


def respell_field(rng: random.Random, line: bytes) -> bytes:
    """Another spelling of the same header field (RFC 5322 4.5.8 obs-optional
    allows WSP before the colon; names are case-insensitive)."""
    i = line.find(b':')
    if i <= 0 or rng.random() >= 0.2:
        return line
    name, rest = line[:i], line[i + 1:]
    k = rng.randrange(5)
    if k == 0:
        name += rng.choice([b' ', b'\t', b'  '])
    elif k == 1:
        name = name.upper()
    elif k == 2:
        name = name.lower()
    elif k == 3:
        rest = rest.lstrip(b' ')
    else:
        rest = b'\t' + rest
    return name + b':' + rest


def hostile_message(rng: random.Random, cid: bytes = b'x',
                    max_len: int = 4000) -> bytes:
    r = rng.random()
    nl = rng.choice([b'\r\n', b'\r\n', b'\n', b'\r'])
    hdr = [b'X-VF-ID: ' + cid]
    choices = [
        lambda: b'Date: ' + rng.choice([
            b'garbage', b'', b'Mon, 32 Foo 99999 25:61:61 +9999',
            b'1 Jan 1 00:00:00 +0000', b'Mon, 01 Jan 2024 10:00:00 +0000',
            b'Thu, 01 Jan 0999 00:00:00 -0000', b'\xff\xfe',
            b'Sat, 31 Dec 9999 23:59:59 +1400']),
        lambda: b'Content-Type: ' + rng.choice([
            b'multipart/mixed', b'multipart/mixed; boundary=',
            b'multipart/mixed; boundary="b"', b'text/plain; charset="\xff"',
            b'message/rfc822', b'text/plain; name="a\\"b\\\\c"',
            b'x' * 300 + b'/' + b'y' * 300, b'/', b'text', b';;;=;',
            b'text/plain; a=b; a=c; *=*; x*0*=y',
            b'multipart/digest; boundary=b',
            b'text/html; charset=utf-8; format=flowed']),
        lambda: b'Subject: ' + rng.choice([
            b'Re: ' * rng.choice([1, 5, 400, 3000]) + b'x', b'=?utf-8?b?////?=',
            b'=?bogus?q?x?=', b'a\rb', b'\xe9\xe8 8bit', b'"q" \\ back',
            b'x' * 3000, b'', b' ', b'[list] fwd: re: x (fwd)',
            b'Re[2]: x', b'=?utf-8?q?=E2=82=AC?= euro', pump(rng),
            pump(rng)]),
        lambda: b'From: ' + rng.choice([
            b'"a\rb" <x@y>', b'"Quote \\" here" <q@example.com>', b'<>',
            b'a@b, c@d, "e" <f@g>', b'group: a@b, c@d;', b'\xff <x@y>',
            b'(comment) x@y', b'x' * 500, b'@', b'"unterminated <x@y>',
            b'=?utf-8?b?w6k=?= <e@x>', b'a@b\r\n\tc@d', pump(rng)]),
        lambda: b'To: ' + rng.choice([b'undisclosed-recipients:;', b'a@b',
                                      b',,,', b'"x" y z <', b'\x00']),
        lambda: rng.choice([b'Sender', b'Reply-To', b'Cc', b'Bcc',
                            b'Resent-From', b'Return-Path']) + b': ' +
        rng.choice([b'a@b, c@d', b'group: a@b, c@d;', b'<>', b'a@b',
                    b'"q" <e@f>, g@h', b',,,', b'x y z', b'\xff <x@y>',
                    b'(c) a@b (d), <e@f>']),
        lambda: b'Message-ID: ' + rng.choice([b'<a@b>', b'no-brackets',
                                              b'<a"b\\c@d>', b'<\xff@x>']),
        lambda: b'In-Reply-To: ' + rng.choice([b'<a@b> <c@d>', b'',
                                               b'x' * 1000]),
        lambda: b'References: ' + b' '.join(
            b'<r%d@x>' % k for k in range(rng.randint(0, 200))),
        lambda: b'Content-Transfer-Encoding: ' + rng.choice([
            b'base64', b'quoted-printable', b'bogus', b'8bit', b'BINARY',
            b'']),
        lambda: b'Content-Disposition: ' + rng.choice([
            b'attachment; filename="a\\"b"', b'inline', b';', b'x; y=z; y=w',
            b'attachment; filename*=utf-8\'\'%e2%82%ac']),
        lambda: b'Content-Language: ' + rng.choice([b'en, fr', b'(x)', b'']),
        lambda: b'Content-Location: ' + rng.choice([b'http://x/"y"', b'\\']),
        lambda: b'Content-ID: ' + rng.choice([b'<i@d>', b'"', b'\xff']),
        lambda: b'Content-Description: ' + rng.choice([b'de"sc', b'a\\b']),
        lambda: b'Content-MD5: ' + rng.choice([b'abc==', b'"']),
        lambda: rng.choice([b'NoColonLine', b': empty name', b' leading sp',
                            b'X-\xff: y', b'X-Long: ' + b'z' * 2000,
                            b'X-Fold: a\r\n b\r\n\tc']),
    ]
    # respelling draws from a generator of its own, so that the messages of
    # existing seeds keep all their other choices
    r2 = random.Random(int(r * 2 ** 53))
    for _ in range(rng.randint(0, 8)):
        hdr.append(respell_field(r2, rng.choice(choices)()))
    if r < 0.15:
        # nested multipart with boundary games
        b = rng.choice([b'b', b'=_x', b'--', b'b b', b'"'])
        # mostly shallow; sometimes around and beyond what recursive code
        # survives (every MIME level costs several frames)
        depth = rng.randint(1, 6) if rng.random() < 0.7 else rng.choice(
            [30, 33, 60, 150, 280, 400, 1200])
        body = b'leaf' + nl
        for _ in range(depth):
            body = (b'--' + b + nl + b'Content-Type: ' + rng.choice([
                b'text/plain', b'message/rfc822', b'multipart/mixed; '
                b'boundary="' + b + b'"', b'application/octet-stream']) + nl +
                nl + body + nl + b'--' + b + (b'--' if rng.random() < 0.7
                                              else b'') + nl)
        hdr.append(b'Content-Type: multipart/mixed; boundary="' + b + b'"')
        msg = nl.join(hdr) + nl + nl + body
    elif r < 0.25:
        msg = bytes(rng.randrange(256) for _ in range(rng.randint(0, 400)))
    elif r < 0.3:
        msg = nl.join(hdr)          # no separator, no final newline
    elif r < 0.35:
        msg = nl.join(hdr) + nl     # headers only
    elif r < 0.4:
        msg = (b'X-H%d: v' % 0 + nl) * 1 + nl.join(
            b'X-H%d: v' % k for k in range(rng.randint(100, 3000))) + nl + nl
    else:
        body = rng.choice([b'', b'body', b'line1' + nl + b'line2' + nl,
                           b'\x00\x01\xff', b' ' + nl + b' ',
                           b'x' * rng.randint(0, 2000), nl * 5])
        msg = nl.join(hdr) + nl + nl + body
    return msg[:max_len]


# -- command lines ------------------------------------------------------------

NONAUTH_CMDS = [b'CAPABILITY', b'NOOP', b'LOGOUT', b'ID NIL', b'STARTTLS',
                b'LOGIN a b', b'AUTHENTICATE PLAIN', b'ID ("a" "b")']
AUTH_CMDS = [b'SELECT INBOX', b'EXAMINE INBOX', b'CREATE x', b'DELETE x',
             b'RENAME a b', b'SUBSCRIBE x', b'UNSUBSCRIBE x', b'LIST "" *',
             b'LSUB "" *', b'STATUS INBOX (MESSAGES RECENT UIDNEXT '
             b'UIDVALIDITY UNSEEN)', b'APPEND INBOX {3+}\r\nabc',
             b'APPEND INBOX (\\Seen) "01-Jan-2024 10:00:00 +0000" {3+}\r\nabc',
             # both arguments / the argument and the state denote one object
             b'RENAME x x', b'RENAME INBOX INBOX', b'RENAME INBOX inbox',
             b'CREATE INBOX', b'DELETE INBOX', b'SUBSCRIBE INBOX',
             b'CREATE x/x', b'RENAME x x/y', b'STATUS x (MESSAGES)']
SELECT_CMDS = [b'CHECK', b'CLOSE', b'EXPUNGE', b'SEARCH ALL',
               b'FETCH 1 (FLAGS)', b'STORE 1 +FLAGS (\\Seen)', b'COPY 1 x',
               b'MOVE 1 x', b'UID FETCH 1:* (FLAGS)', b'UID SEARCH ALL',
               b'UID STORE 1 FLAGS ()', b'UID COPY 1 x', b'UID MOVE 1 x',
               b'UID EXPUNGE 1', b'IDLE',
               # source and destination are the selected mailbox
               b'COPY 1 INBOX', b'MOVE 1 INBOX', b'UID MOVE 1:* INBOX',
               b'UID COPY 1:* inbox', b'MOVE 1:* inbox', b'SELECT INBOX',
               b'EXAMINE INBOX', b'DELETE INBOX', b'RENAME INBOX x',
               b'STATUS INBOX (MESSAGES UNSEEN)', b'APPEND INBOX {3+}\r\nabc',
               b'FETCH 1:* (UID FLAGS INTERNALDATE RFC822.SIZE ENVELOPE '
               b'BODYSTRUCTURE BODY BODY[] BODY[HEADER] BODY[TEXT] '
               b'BODY[1] BODY[1.MIME] BODY[HEADER.FIELDS (Subject)] '
               b'BODY[HEADER.FIELDS.NOT (Subject)] RFC822 RFC822.HEADER '
               b'RFC822.TEXT BINARY[1] BINARY.SIZE[1] BODY[]<0.10> '
               b'EMAILID THREADID)',
               b'SEARCH OR FROM a NOT (SUBJECT b SINCE 1-Jan-2020) '
               b'HEADER x y LARGER 10 UID 1:* KEYWORD k',
               b'SEARCH CHARSET UTF-8 TEXT x']

HOSTILE_LEAVES = [
    b'&AAA', b'&', b'&-', b'&AAAA', b'&!!!-', b'&AOk', b'"&AAA"', b'&AGE-',
    b'&,,,,-', b'&2AA-', b'&2ADcAA-', b'\xff', b'"\xff"', b'\xc3\xa9',
    b'NIL', b'nil', b'""', b'"', b'"\\', b'"\\x"', b'\\', b'(', b')', b'((',
    b'))', b'()', b'[', b']', b'{', b'}', b'{}', b'{a}', b'{-1}',
    b'{99999999999999999999}', b'{' + b'9' * 5000 + b'+}',
    b'{' + b'1' * 4400 + b'}', b'~{' + b'9' * 4301 + b'+}', b'9' * 5000,
    b'1:' + b'9' * 5000, b'BODY[]<' + b'9' * 5000 + b'.1>',
    b'BODY[]<0.' + b'9' * 5000 + b'>', b'BODY[' + b'1' * 5000 + b']',
    b'LARGER ' + b'9' * 5000, b'UID ' + b'9' * 5000, b'{0}', b'~{0+}\r\n', b'{0+}\r\n',
    b'{1+}\r\nx', b'{3+}\r\na\r\n', b'{4+}\r\n{3+}', b'{6+}\r\nab{2+}',
    b'{5+}\r\n{9+}\n', b'*', b'%', b'1:*', b'*:*', b'0', b'-1',
    b'4294967296', b'99999999999999999999999', b'1:', b':1', b'1,,2', b'1,',
    b',', b'$', b'1:2:3', b'\x00', b'a\x00b', b'\r', b'a\rb', b'\t', b' ',
    b'  ', b'BODY[', b'BODY[]<', b'BODY[]<1.0>', b'BODY[]<0.0>',
    b'BODY[]<4294967296.1>', b'BODY[9999999999]', b'BODY[1.2.3.4.5.6.7.8]',
    b'BODY[0]', b'BODY[.1]', b'BODY[1.]', b'BODY[HEADER.FIELDS ()]',
    b'BODY[HEADER.FIELDS (\xff)]', b'BODY[HEADER.FIELDS ("a b")]',
    b'BINARY[]', b'BINARY.SIZE[]', b'BINARY[1]<0.0>', b'RFC822.SIZE.X',
    b'CHARSET', b'CHARSET \xff', b'CHARSET x-unknown', b'CHARSET UTF-8',
    b'CHARSET utf-16 TEXT x', b'HEADER', b'HEADER \xe9 x', b'HEADER "" ""',
    b'CHARSET UTF-8 HEADER {2+}\r\n\xc3\xa9 x',
    b'CHARSET UTF-8 SUBJECT {2+}\r\n\xc3\xa9', b'HEADER {1+}\r\n\xff x',
    b'CHARSET UTF-8 KEYWORD {2+}\r\n\xc3\xa9',
    b'CHARSET UTF-8 FROM {3+}\r\n\xe2\x82\xac TO {1+}\r\n\xff',
    b'OR', b'OR OR OR', b'NOT', b'NOT NOT', b'SINCE 99-Foo-0000',
    b'SINCE 1-Jan-99999', b'SINCE "1-Jan-2020"', b'BEFORE 31-Feb-2020',
    b'ON 0-Jan-2020', b'LARGER -1', b'LARGER 99999999999999999999',
    b'UID', b'UID *', b'KEYWORD \\Seen', b'KEYWORD', b'EMAILID', b'THREADID x',
    b'FLAGS', b'+FLAGS', b'-FLAGS.SILENT', b'FLAGS.SILENT (', b'(\\Recent)',
    b'(\\*)', b'(\\)', b'(\\Bogus)', b'(a b c d e f g h i j k l m n o p)',
    b'"01-Jan-2024 10:00:00 +0000"', b'"99-Jan-2024 10:00:00 +0000"',
    b'" 1-Jan-0001 00:00:00 +0000"', b'"01-Jan-2024 25:61:61 +9999"',
    b'"1-Jan-999 00:00:00 +0000"', b'"31-Dec-9999 23:59:59 +1400"',
    b'"01-Jan-2024"', b'"01-Jan-2024 10:00:00 +010203"',
    b'"01-Jan-2024 10:00:00 +01:00"', b'"01-Jan-2024 10:00:00 Z"',
    b'"01-Jan-2024 10:00:00 -0000"', b'"01-Jan-2024 10:00:00 +2359"',
    b'BODY[HEADER.FIELDS ({3+}\r\nX\rA)]',
    b'BODY[HEADER.FIELDS ({3+}\r\nX\xe9A)]',
    b'BODY[HEADER.FIELDS ({3+}\r\nX\x00A "q\\"x")]',
    b'BODY.PEEK[HEADER.FIELDS.NOT ({2+}\r\n\r\n)]',
    b'PLAIN', b'LOGIN', b'BOGUS', b'PLAIN =',
    b'PLAIN AGEAYg==', b'PLAIN !!!', b'(MESSAGES', b'(BOGUS)', b'()',
    b'(MESSAGES MESSAGES)', b'UTF8', b'RETURN (ALL)', b'RETURN ()',
]


def deep_nest(rng: random.Random) -> bytes:
    # fine-grained around the interpreter's recursion limit: a program may
    # be shallow enough to parse and still too deep to evaluate
    n = rng.choice([10, 50, 200, 300, 350, 400, 430, 460, 480, 490, 500, 510,
                    520, 550, 600, 700, 800, 900, 1000, 5000, 20000])
    kind = rng.random()
    if kind < 0.2:
        return b'(' * n + b'ALL' + b')' * n
    if kind < 0.3:
        return b'OR ALL ' * n + b'ALL'
    if kind < 0.5:
        return b'NOT ' * n + b'ALL'
    if kind < 0.7:
        return b'OR ' * n + b'ALL ' * n + b'ALL'
    if kind < 0.85:
        return b'(' * n
    return b'"' + b'\\"' * n + b'"'


def sanitize_literals(line: bytes) -> bytes:
    """Neutralise *accidental* literal introducers so that the harness'
    framing (a line is complete at its final LF) is unambiguous."""
    return _LIT_INTRO.sub(lambda m: b'{' + m.group(1) + m.group(2) + b'} ' +
                          m.group(3), line)


APPEND_DATES = [b'01-Jan-2024 10:00:00 +010203', b'01-Jan-2024 10:00:00 +01:00',
                b'01-Jan-2024 10:00:00 Z', b'01-Jan-2024 10:00:00 -0330',
                b'01-Jan-0001 00:00:00 +0000', b'01-Jan-0001 00:00:00 +1400',
                b'31-Dec-9999 23:59:59 -1200', b' 1-Jan-1970 00:00:00 +0000',
                b'01-Jan-1600 00:00:00 +0000', b'29-Feb-2023 00:00:00 +0000',
                b'31-Dec-9999 23:59:59 +0000', b'01-Jan-2024 10:00:00 +0000']


def name_line(rng: random.Random) -> bytes:
    """A syntactically valid mailbox command carrying a hostile name (or an
    APPEND with an extreme date)."""
    def nm() -> bytes:
        r = rng.random()
        if r < 0.4:
            return wire_mailbox(path_name(rng))
        if r < 0.8:
            return wire_mailbox(unicode_name(rng, controls=True, max_len=40))
        if r < 0.9:
            return wire_mailbox('x' * rng.choice([200, 255, 256, 1000, 5000]))
        return wire_mailbox(tidy_name(rng))
    r = rng.random()
    if r < 0.5:
        return rng.choice([b'CREATE', b'DELETE', b'SELECT', b'EXAMINE',
                           b'SUBSCRIBE', b'UNSUBSCRIBE']) + b' ' + nm()
    if r < 0.65:
        return b'RENAME ' + nm() + b' ' + nm()
    if r < 0.75:
        return b'STATUS ' + nm() + b' (MESSAGES RECENT UIDNEXT)'
    if r < 0.85:
        return rng.choice([b'LIST ', b'LSUB ']) + nm() + b' ' + rng.choice(
            [b'*', b'%', b'""', nm()])
    from .net import lit
    return b'APPEND ' + rng.choice([b'INBOX', nm()]) + b' "' + \
        rng.choice(APPEND_DATES) + b'" ' + lit(b'A: b\r\n\r\nx')


def hostile_line(rng: random.Random, state: str) -> bytes:
    """One command line *without* tag and CRLF; may contain deliberate,
    well-formed {n+} literals."""
    if state != 'nonauth' and rng.random() < 0.25:
        return name_line(rng)
    if state == 'selected' and rng.random() < 0.04:
        return rng.choice([b'SEARCH ', b'UID SEARCH ', b'SEARCH CHARSET '
                           b'UTF-8 ', b'SEARCH 1:* ']) + deep_nest(rng)
    pool = list(NONAUTH_CMDS)
    if state in ('auth', 'selected'):
        pool += AUTH_CMDS * 2
    if state == 'selected':
        pool += SELECT_CMDS * 4
    r = rng.random()
    base = rng.choice(pool)
    if r < 0.45:
        # grammar-derived: replace one or two argument tokens by hostile
        # leaves
        toks = base.split(b' ')
        for _ in range(rng.choice([1, 1, 2])):
            if len(toks) > 1:
                k = rng.randrange(1, len(toks))
                toks[k] = rng.choice(HOSTILE_LEAVES)
            else:
                toks.append(rng.choice(HOSTILE_LEAVES))
        if rng.random() < 0.1:
            toks.append(deep_nest(rng))
        return b' '.join(toks)
    if r < 0.55:
        verb = base.split(b' ')[0]
        if verb == b'UID':
            verb = b' '.join(base.split(b' ')[:2])
        return verb + b' ' + b' '.join(
            rng.choice(HOSTILE_LEAVES) for _ in range(rng.randint(0, 4)))
    if r < 0.8:
        # byte-level mutation of a valid line
        buf = bytearray(base)
        for _ in range(rng.randint(1, 4)):
            op = rng.random()
            pos = rng.randrange(len(buf) + 1)
            if op < 0.3 and buf:
                del buf[min(pos, len(buf) - 1)]
            elif op < 0.6:
                buf.insert(pos, rng.choice(
                    b'\x00\xff"\\(){}[]*% \t&~+=\x7f\x80\xc3\xa9\r'))
            elif op < 0.8 and buf:
                buf[min(pos, len(buf) - 1)] = rng.randrange(256)
            else:
                chunk = bytes(buf[pos:pos + rng.randint(1, 8)])
                buf[pos:pos] = chunk * rng.randint(1, 20)
        return sanitize_literals(bytes(buf).replace(b'\n', b' '))
    if r < 0.9:
        n = rng.choice([1, 5, 50, 500, 5000, 40000])
        raw = bytes(rng.randrange(256) for _ in range(min(n, 2000)))
        if n > 2000:
            raw = raw * (n // 2000)
        return sanitize_literals(raw.replace(b'\n', b' '))
    if r < 0.95:
        # the valid command as it is (among them the self-referential ones)
        return base
    # long but simple
    return base + b' ' + rng.choice([b'a', b'(', b'1,', b'"x" ']) * \
        rng.choice([100, 1000, 10000])
