#!/bin/sh
# Offline setup: optional third-party helpers next to the repo's interpreter,
# byte-compile the framework.  Nothing is fetched from the network.
set -e
cd "$(dirname "$0")"
if [ ! -d .deps/icontract ]; then
  /venv/bin/pip install --quiet --no-index --find-links /opt/veriftools/wheels \
      --target .deps icontract >/dev/null 2>&1 || \
      echo "note: icontract not installed (structural diagnostics fall back to plain wrappers)"
fi
/venv/bin/python -m compileall -q vf >/dev/null
/venv/bin/python -c "import pymap, sys; print('pymap from', pymap.__file__)"
