#!/bin/sh
# Offline setup: nothing to fetch or install.  The framework is pure Python on
# top of the repository's own interpreter (/venv, pymap installed editable from
# /repo) and the standard library (asyncio, sys.addaudithook, sys.monitoring).
set -e
cd "$(dirname "$0")"
/venv/bin/python -m compileall -q vf >/dev/null
/venv/bin/python -c "import pymap, sys; print('pymap from', pymap.__file__)"
